"""Seeded random operation sequences for the runtime-container drivers (the randomized half of
binding (A); the exhaustive small-scope half comes from TLC on MCOrdMap / MCPrefixTree)."""
import random


def wbt_cases(seed, ncases, length, nkeys, nh, first_id=1):
    rnd = random.Random(seed)
    keyops = ["insert", "remove", "get", "get_mut", "entry_or_insert", "entry_or_insert_with",
              "entry_toggle", "entry_set", "iter_mut_key"]
    cases = []
    for c in range(ncases):
        ops = []
        grow = True
        for i in range(length):
            if rnd.random() < 0.04:
                grow = not grow
            r = rnd.random()
            h = rnd.randint(1, nh)
            op = {"op": None, "h": h, "h2": 0, "h3": 0, "k": 0, "v": i + 1}
            if r < 0.55:
                name = rnd.choice(["insert", "insert", "entry_or_insert", "entry_or_insert_with"]) if grow \
                    else rnd.choice(["remove", "remove", "remove", "entry_toggle"])
                if rnd.random() < 0.25:
                    name = rnd.choice(keyops)
                op["op"] = name
                # clustered keys make long ascending / descending runs likely
                if rnd.random() < 0.3:
                    op["k"] = (ops[-1]["k"] + rnd.choice([1, 1, -1])) % nkeys if ops else 0
                else:
                    op["k"] = rnd.randrange(nkeys)
            elif r < 0.62:
                op["op"] = rnd.choice(["iter_mut_add", "clear"]) if rnd.random() < 0.3 else "iter_mut_add"
            elif r < 0.72:
                op.update(op="clone", h2=rnd.randint(1, nh), v=0)
            elif r < 0.87:
                op.update(op="union", h2=rnd.randint(1, nh), h3=rnd.randint(1, nh), v=0)
            else:
                op.update(op="diff", h2=rnd.randint(1, nh), h3=rnd.randint(1, nh), v=0)
            ops.append(op)
        cases.append({"id": first_id + c, "nh": nh, "ops": ops})
    return cases
