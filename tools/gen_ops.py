"""Seeded random operation sequences for the runtime-container drivers (the randomized half of
binding (A); the exhaustive small-scope half comes from TLC on MCOrdMap / MCPrefixTree)."""
import random


def wbt_cases(seed, ncases, length, nkeys, nh, first_id=1):
    rnd = random.Random(seed)
    keyops = ["insert", "remove", "get", "get_mut", "entry_or_insert", "entry_or_insert_with",
              "entry_toggle", "entry_set", "iter_mut_key"]
    cases = []
    for c in range(ncases):
        ops = []
        grow = True
        for i in range(length):
            if rnd.random() < 0.04:
                grow = not grow
            r = rnd.random()
            h = rnd.randint(1, nh)
            op = {"op": None, "h": h, "h2": 0, "h3": 0, "k": 0, "v": i + 1}
            if r < 0.55:
                name = rnd.choice(["insert", "insert", "entry_or_insert", "entry_or_insert_with"]) if grow \
                    else rnd.choice(["remove", "remove", "remove", "entry_toggle"])
                if rnd.random() < 0.25:
                    name = rnd.choice(keyops)
                op["op"] = name
                # clustered keys make long ascending / descending runs likely
                if rnd.random() < 0.3:
                    op["k"] = (ops[-1]["k"] + rnd.choice([1, 1, -1])) % nkeys if ops else 0
                else:
                    op["k"] = rnd.randrange(nkeys)
            elif r < 0.62:
                op["op"] = rnd.choice(["iter_mut_add", "clear"]) if rnd.random() < 0.3 else "iter_mut_add"
            elif r < 0.72:
                op.update(op="clone", h2=rnd.randint(1, nh), v=0)
            elif r < 0.87:
                op.update(op="union", h2=rnd.randint(1, nh), h3=rnd.randint(1, nh), v=0)
            else:
                op.update(op="diff", h2=rnd.randint(1, nh), h3=rnd.randint(1, nh), v=0)
            ops.append(op)
        cases.append({"id": first_id + c, "nh": nh, "ops": ops})
    return cases


def pt_cases(seed, arity, ncases, length, universe, nh, first_id=1):
    """Random PrefixTree<arity> sequences; tuples are drawn from a small pool so that removals,
    restrictions and set algebra hit existing tuples often."""
    rnd = random.Random(seed * 31 + arity)
    cases = []
    idm = {"id": True, "pairs": []}

    def tup(n):
        return [rnd.randrange(universe) for _ in range(n)]

    for c in range(ncases):
        pool = [tup(arity) for _ in range(12)]
        ops = []
        for i in range(length):
            op = {"op": None, "h": rnd.randint(1, nh), "h2": 0, "h3": 0, "k": 0, "k2": 0, "t": [], "sub": [], "maps": []}
            r = rnd.random()
            t = rnd.choice(pool) if rnd.random() < 0.8 else tup(arity)
            if r < 0.30:
                op.update(op="insert", t=t)
            elif r < 0.45:
                op.update(op="remove", t=t)
            elif r < 0.50:
                op.update(op="contains", t=t)
            elif r < 0.52:
                op.update(op="clear")
            elif r < 0.58:
                op.update(op="clone", h2=rnd.randint(1, nh))
            elif r < 0.66:
                op.update(op="union", h2=rnd.randint(1, nh), h3=rnd.randint(1, nh))
            elif r < 0.74:
                op.update(op="diff", h2=rnd.randint(1, nh), h3=rnd.randint(1, nh))
            elif arity == 0:
                op.update(op="insert", t=[])
            elif r < 0.78:
                op.update(op="get", k=t[0])
            elif r < 0.83:
                sub = [x[1:] for x in rnd.sample(pool, rnd.randint(0, 3))]
                op.update(op=rnd.choice(["insert_restriction", "remove_restriction"]), k=t[0], sub=sub)
            elif r < 0.90:
                op.update(op=rnd.choice(["insert_restriction_from", "remove_restriction_from"]), k=t[0],
                          h2=rnd.randint(1, nh), k2=rnd.choice(pool)[0])
            elif r < 0.95:
                maps = []
                for col in range(arity):
                    if rnd.random() < 0.6:
                        maps.append(idm)
                    else:
                        dom = rnd.sample(range(universe), rnd.randint(0, universe))
                        maps.append({"id": False, "pairs": [[x, rnd.randrange(universe)] for x in sorted(dom)]})
                op.update(op="mapped", h2=rnd.randint(1, nh), maps=maps)
            elif arity >= 2:
                rr = rnd.random()
                if rr < 0.3:
                    op.update(op="restrictions")
                elif rr < 0.8:
                    op.update(op="get_mut_insert", k=t[0], t=rnd.choice(pool)[1:])
                else:
                    op.update(op="restrictions_mut_insert", t=rnd.choice(pool)[1:])
            else:
                op.update(op="contains", t=t)
            ops.append(op)
        cases.append({"id": first_id + c, "nh": nh, "n": arity, "ops": ops})
    return cases


def uf_cases(seed, ncases, length, maxn, first_id=1):
    """Random Unification sequences inside the preconditions (union only of current representatives;
    the generator tracks the partition itself)."""
    rnd = random.Random(seed * 17 + maxn)
    cases = []
    for c in range(ncases):
        ops = []
        rt, crt = [], None

        def rep_union(r, l, x):
            return [x if v == l else v for v in r]
        for _ in range(length):
            r = rnd.random()
            if not rt or (r < 0.12 and len(rt) < maxn):
                n = min(maxn, len(rt) + rnd.randint(1, 3))
                ops.append({"op": "grow", "a": n, "b": 0})
                rt = rt + list(range(len(rt), n))
            elif r < 0.45:
                ops.append({"op": "root", "a": rnd.randrange(len(rt)), "b": 0})
            elif r < 0.75:
                roots = sorted(set(rt))
                a, b = rnd.choice(roots), rnd.choice(roots)
                ops.append({"op": "union", "a": a, "b": b})
                rt = rep_union(rt, a, b)
            elif r < 0.8:
                ops.append({"op": "clone", "a": 0, "b": 0})
                crt = list(rt)
            elif crt and r < 0.9:
                ops.append({"op": "croot", "a": rnd.randrange(len(crt)), "b": 0})
            elif crt:
                roots = sorted(set(crt))
                a, b = rnd.choice(roots), rnd.choice(roots)
                ops.append({"op": "cunion", "a": a, "b": b})
                crt = rep_union(crt, a, b)
            else:
                ops.append({"op": "root", "a": rnd.randrange(len(rt)), "b": 0})
        cases.append({"id": first_id + c, "ops": ops})
    return cases
