"""API histories for generated models: the fixed creation prefix, TLC-enumerated bodies (ApiGen),
seeded random histories, and families (same facts, different order / interleaved closes /
close_until stops) whose final models must coincide."""
import itertools
import os
import random
import re

import eql
import mcgen
import vlib


def api_of(sig, module_path):
    text = open(module_path).read()
    fns = set(re.findall(r"pub fn (\w+)\s*[<(]", text))
    return {
        "new": [t for t in sig.types if sig.types[t] != "enum" and "new_" + eql.snake(t) in fns],
        "insert": [r for r in sig.order if "insert_" + eql.snake(r) in fns],
        "define": [r for r in sig.order if sig.rels[r]["func"] and "define_" + eql.snake(r) in fns],
        "new_enum": [t for t in sig.enums if "new_" + eql.snake(t) in fns],
        "fns": fns,
    }


def prefix(sig, api, n_per_type):
    """creation steps; returns (steps, handle counts)"""
    steps = []
    nh = {t: 0 for t in sig.types}
    for t in api["new"]:
        k = n_per_type.get(t, n_per_type.get("*", 2)) if isinstance(n_per_type, dict) else n_per_type
        for _ in range(k):
            steps.append({"op": "new", "ty": t})
            nh[t] += 1
    return steps, nh


def step_insert(r, args):
    return {"op": "insert", "rel": r, "args": list(args)}


def rand_args(rnd, sig, nh, cols):
    if any(nh[c] == 0 for c in cols):
        return None
    return [rnd.randrange(nh[c]) for c in cols]


def random_history(sig, api, rnd, length, n_per_type, p_close=0.12, p_until=0.10, allow_define=True, enum_prob=0.1):
    steps, nh = prefix(sig, api, n_per_type)
    for _ in range(length):
        r = rnd.random()
        if r < p_close:
            steps.append({"op": "close"})
        elif r < p_close + p_until:
            steps.append({"op": "close_until", "stop": rnd.randint(0, 3)})
        elif r < p_close + p_until + 0.12:
            ts = [t for t in sig.types if nh[t] >= 2]
            if ts:
                t = rnd.choice(ts)
                a, b = rnd.sample(range(nh[t]), 2)
                steps.append({"op": "equate", "ty": t, "a": a, "b": b})
        elif r < p_close + p_until + 0.12 + enum_prob and api["new_enum"]:
            t = rnd.choice(api["new_enum"])
            c = rnd.choice(sig.enums[t])
            args = rand_args(rnd, sig, nh, sig.rels[c]["cols"][:-1])
            if args is not None:
                steps.append({"op": "new_enum", "ty": t, "ctor": c, "args": args})
                nh[t] += 1
        elif r < p_close + p_until + 0.30 and allow_define and api["define"]:
            f = rnd.choice(api["define"])
            args = rand_args(rnd, sig, nh, sig.rels[f]["cols"][:-1])
            if args is not None and nh[sig.rels[f]["cols"][-1]] < 6:
                steps.append({"op": "define", "rel": f, "args": args})
                nh[sig.rels[f]["cols"][-1]] += 1
        elif api["insert"]:
            rel = rnd.choice(api["insert"])
            args = rand_args(rnd, sig, nh, sig.rels[rel]["cols"])
            if args is not None:
                steps.append(step_insert(rel, args))
    steps.append({"op": "close"})
    return steps


def random_facts(sig, api, rnd, nh, k, with_equate=True):
    facts = []
    for _ in range(k):
        if with_equate and rnd.random() < 0.2:
            ts = [t for t in sig.types if nh[t] >= 2]
            if ts:
                t = rnd.choice(ts)
                a, b = rnd.sample(range(nh[t]), 2)
                facts.append({"op": "equate", "ty": t, "a": a, "b": b})
                continue
        if api["insert"]:
            rel = rnd.choice(api["insert"])
            args = rand_args(rnd, sig, nh, sig.rels[rel]["cols"])
            if args is not None:
                facts.append(step_insert(rel, args))
    return facts


def family_c03(sig, api, rnd, n_per_type, nfacts, nvariants):
    """one-shot history and variants: permuted facts, interleaved closes, duplicated assertions,
    a re-close of the closed model"""
    pre, nh = prefix(sig, api, n_per_type)
    facts = random_facts(sig, api, rnd, nh, nfacts)
    fin = {"op": "close", "tag": "fam:C03"}
    members = [pre + facts + [dict(fin)] + [{"op": "close", "tag": "reclose"}]]
    for _ in range(nvariants):
        f = list(facts)
        rnd.shuffle(f)
        body = []
        for st in f:
            body.append(st)
            if rnd.random() < 0.25:
                body.append(dict(st))          # redundant re-assertion
            if rnd.random() < 0.3:
                body.append({"op": "close"})   # interleaved close
        members.append(pre + body + [dict(fin)])
    return members


def family_c07(sig, api, rnd, n_per_type, nfacts, max_stop):
    """direct close vs. close_until stopping at the j-th evaluation, then resumed"""
    pre, nh = prefix(sig, api, n_per_type)
    facts = random_facts(sig, api, rnd, nh, nfacts)
    more = random_facts(sig, api, rnd, nh, 2, with_equate=False)
    fin = {"op": "close", "tag": "fam:C07"}
    members = [pre + facts + [dict(fin)]]
    for j in range(max_stop + 1):
        members.append(pre + facts + [{"op": "close_until", "stop": j}] + [dict(fin)])
        members.append(pre + facts + [{"op": "close_until", "stop": j}, {"op": "close_until", "stop": 1}] + [dict(fin)])
    fam2 = [pre + facts + more + [dict(fin)]]
    for j in range(max_stop + 1):
        fam2.append(pre + facts + [{"op": "close_until", "stop": j}] + more + [dict(fin)])
    return members, fam2


def exhaustive_bodies(theory, sig, api, pre_n, max_ops, max_asserts, max_stop, max_handles, name, with_define=True, with_equate=True):
    """all histories of the ApiGen scope, enumerated by TLC; returns (list of step lists, tlc result)"""
    pre, nh = prefix(sig, api, pre_n)
    d = vlib.workdir(name)
    consts = {
        "GTypes": mcgen.sset(mcgen.s(t) for t in sig.types),
        "GArity": mcgen.fun((mcgen.s(r), mcgen.seq(mcgen.s(c) for c in sig.rels[r]["cols"])) for r in sig.order),
        "GInsertable": mcgen.sset(mcgen.s(r) for r in api["insert"]),
        "GDefinable": mcgen.sset(mcgen.s(r) for r in (api["define"] if with_define else [])),
        "GEquateTypes": mcgen.sset(mcgen.s(t) for t in (sig.types if with_equate else [])),
        "GPre": mcgen.fun((mcgen.s(t), str(nh[t])) for t in sig.types),
    }
    cfg = ["SPECIFICATION Spec", "CONSTANTS", "  Types <- GTypes", "  Arity <- GArity", "  Insertable <- GInsertable",
           "  Definable <- GDefinable", "  EquateTypes <- GEquateTypes", "  Pre <- GPre", f"  MaxOps = {max_ops}",
           f"  MaxAsserts = {max_asserts}", f"  MaxStop = {max_stop}", f"  MaxHandles = {max_handles}",
           "INVARIANTS TypeOK Emit", "CHECK_DEADLOCK FALSE"]
    mod = "MCGen_" + theory
    mcgen.write_mc(d, mod, "ApiGen", consts, cfg)
    r = vlib.tlc(mod, name=name + "-tlc", workers=4, specdir=d, timeout=1800)
    out = []
    for h in r["prints"].get("REPLAY", []):
        steps = list(pre)
        for o in h:
            if o["op"] == "insert":
                steps.append(step_insert(o["rel"], o["args"]))
            elif o["op"] == "define":
                steps.append({"op": "define", "rel": o["rel"], "args": list(o["args"])})
            elif o["op"] == "equate":
                steps.append({"op": "equate", "ty": o["ty"], "a": o["a"], "b": o["b"]})
            elif o["op"] == "close":
                steps.append({"op": "close"})
            else:
                steps.append({"op": "close_until", "stop": o["stop"]})
        if steps[-1]["op"] != "close":
            steps.append({"op": "close"})
        out.append(steps)
    return out, r
