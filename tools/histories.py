"""API histories for generated models: the fixed creation prefix, TLC-enumerated bodies (ApiGen),
seeded random histories, and families (same facts, different order / interleaved closes /
close_until stops) whose final models must coincide."""
import json
import itertools
import os
import random
import re

import eql
import mcgen
import vlib


def api_of(sig, module_path):
    text = open(module_path).read()
    fns = set(re.findall(r"pub fn (\w+)\s*[<(]", text))
    return {
        "new": [t for t in sig.types if sig.types[t] != "enum" and "new_" + eql.snake(t) in fns],
        "insert": [r for r in sig.order if "insert_" + eql.snake(r) in fns],
        "define": [r for r in sig.order if sig.rels[r]["func"] and "define_" + eql.snake(r) in fns],
        "new_enum": [t for t in sig.enums if "new_" + eql.snake(t) in fns],
        "fns": fns,
    }


def prefix(sig, api, n_per_type):
    """creation steps; returns (steps, handle counts)"""
    steps = []
    nh = {t: 0 for t in sig.types}
    for t in api["new"]:
        k = n_per_type.get(t, n_per_type.get("*", 2)) if isinstance(n_per_type, dict) else n_per_type
        for _ in range(k):
            steps.append({"op": "new", "ty": t})
            nh[t] += 1
    return steps, nh


def step_insert(r, args):
    return {"op": "insert", "rel": r, "args": list(args)}


def rand_args(rnd, sig, nh, cols):
    if any(nh[c] == 0 for c in cols):
        return None
    return [rnd.randrange(nh[c]) for c in cols]


def random_history(sig, api, rnd, length, n_per_type, p_close=0.12, p_until=0.10, allow_define=True, enum_prob=0.1):
    if sig.models:
        return random_history_model(sig, api, rnd, length, p_close, p_until)
    steps, nh = prefix(sig, api, n_per_type)
    for _ in range(length):
        r = rnd.random()
        if r < p_close:
            steps.append({"op": "close"})
        elif r < p_close + p_until:
            steps.append({"op": "close_until", "stop": rnd.randint(0, 3)})
        elif r < p_close + p_until + 0.12:
            ts = [t for t in sig.types if nh[t] >= 2]
            if ts:
                t = rnd.choice(ts)
                a, b = rnd.sample(range(nh[t]), 2)
                steps.append({"op": "equate", "ty": t, "a": a, "b": b})
        elif r < p_close + p_until + 0.17 and api["new"] and steps[-1]["op"] != "new":
            # an element created late (possibly right after a close)
            t = rnd.choice(api["new"])
            if nh[t] < 5:
                steps.append({"op": "new", "ty": t})
                nh[t] += 1
        elif r < p_close + p_until + 0.17 + enum_prob and api["new_enum"]:
            t = rnd.choice(api["new_enum"])
            c = rnd.choice(sig.enums[t])
            args = rand_args(rnd, sig, nh, sig.rels[c]["cols"][:-1])
            if args is not None:
                steps.append({"op": "new_enum", "ty": t, "ctor": c, "args": args})
                nh[t] += 1
        elif r < p_close + p_until + 0.30 and allow_define and api["define"]:
            f = rnd.choice(api["define"])
            args = rand_args(rnd, sig, nh, sig.rels[f]["cols"][:-1])
            if args is not None and nh[sig.rels[f]["cols"][-1]] < 6:
                steps.append({"op": "define", "rel": f, "args": args})
                nh[sig.rels[f]["cols"][-1]] += 1
        elif api["insert"]:
            rel = rnd.choice(api["insert"])
            args = rand_args(rnd, sig, nh, sig.rels[rel]["cols"])
            if args is not None:
                steps.append(step_insert(rel, args))
    steps.append({"op": "close"})
    return steps


def random_facts(sig, api, rnd, nh, k, with_equate=True):
    facts = []
    for _ in range(k):
        if with_equate and rnd.random() < 0.2:
            ts = [t for t in sig.types if nh[t] >= 2]
            if ts:
                t = rnd.choice(ts)
                a, b = rnd.sample(range(nh[t]), 2)
                facts.append({"op": "equate", "ty": t, "a": a, "b": b})
                continue
        if api["insert"]:
            rel = rnd.choice(api["insert"])
            args = rand_args(rnd, sig, nh, sig.rels[rel]["cols"])
            if args is not None:
                facts.append(step_insert(rel, args))
    return facts


def family_c03(sig, api, rnd, n_per_type, nfacts, nvariants):
    """one-shot history and variants: permuted facts, interleaved closes, duplicated assertions,
    a re-close of the closed model"""
    if sig.models:
        return [m[:-1] + [{"op": "close", "tag": "fam:C03"}] for m in family_c17(sig, api, rnd, nfacts + 2, nvariants)]
    pre, nh = prefix(sig, api, n_per_type)
    facts = random_facts(sig, api, rnd, nh, nfacts)
    fin = {"op": "close", "tag": "fam:C03"}
    members = [pre + facts + [dict(fin)] + [{"op": "close", "tag": "reclose"}]]
    for k in range(nvariants):
        f = list(facts)
        rnd.shuffle(f)
        body = []
        for st in f:
            body.append(st)
            if rnd.random() < 0.25:
                body.append(dict(st))          # redundant re-assertion
            if rnd.random() < 0.3:
                body.append({"op": "close"})   # interleaved close
        if k % 2 == 1:
            # element creation order: every element is created only when first needed (per type the
            # order of creation - and with it the meaning of the handles - stays the same); elements
            # that no fact mentions are created at the very end, after a close
            members.append(lazy_creation(sig, pre, body, rnd, always_close=(k == 1)) + [dict(fin)])
        else:
            members.append(pre + body + [dict(fin)])
    return members


def lazy_creation(sig, pre, body, rnd, always_close=False):
    queue = {}
    for st in pre:
        if st["op"] != "new":
            return pre + body
        queue.setdefault(st["ty"], []).append(st)
    made = {t: 0 for t in queue}
    out = []

    def need(t, k):
        while made.get(t, 0) < k and queue.get(t):
            out.append(queue[t].pop(0))
            made[t] += 1
    for st in body:
        if st["op"] == "insert":
            for c, a in zip(sig.rels[st["rel"]]["cols"], st["args"]):
                need(c, a + 1)
        elif st["op"] == "equate":
            need(st["ty"], max(st["a"], st["b"]) + 1)
        out.append(st)
    rest = [st for t in sorted(queue) for st in queue[t]]
    if rest:
        if out and out[-1]["op"] != "close" and (always_close or rnd.random() < 0.7):
            out.append({"op": "close"})
        out += rest
    return out


def def_premise_facts(sig, api, stages, nh, rnd):
    """facts that make the premise of one non-surjective stage (`... then f(..)!`) true for one assignment of
    handles to its variables: the request it raises is what is pending across an early stop"""
    ds = [st for st in (stages or []) if st["concl"]["kind"] == "def"
          and all(a["kind"] == "set" or a["rel"] in api["insert"] for a in st["prem"])]
    if not ds:
        return []
    st = rnd.choice(ds)
    val = {}
    out = []
    for a in st["prem"]:
        cols = [a["rel"]] if a["kind"] == "set" else sig.rels[a["rel"]]["cols"]
        args = []
        for v, c in zip(a["args"], cols):
            if nh.get(c, 0) == 0:
                return []
            if v not in val:
                val[v] = rnd.randrange(nh[c])
            args.append(val[v])
        if a["kind"] != "set":
            out.append(step_insert(a["rel"], args))
    return out


def family_c07(sig, api, rnd, n_per_type, nfacts, max_stop, stages=None):
    """direct close vs. close_until stopping at the j-th evaluation, then resumed"""
    if sig.models:
        pre, nh = model_universe(sig, api, rnd)
        facts = model_facts(sig, api, rnd, nh, nfacts + 2)
        more = []
    else:
        pre, nh = prefix(sig, api, n_per_type)
        facts = random_facts(sig, api, rnd, nh, nfacts) + def_premise_facts(sig, api, stages, nh, rnd)
        more = random_facts(sig, api, rnd, nh, 2, with_equate=True)
    fin = {"op": "close", "tag": "fam:C07"}
    members = [pre + facts + [dict(fin)]]
    for j in range(max_stop + 1):
        members.append(pre + facts + [{"op": "close_until", "stop": j}] + [dict(fin)])
        # resumed by further close_until calls: one whose condition already holds on entry (stop 0),
        # ones that run one or two more iterations, and chains of them
        for j2 in (0, 1, 2):
            members.append(pre + facts + [{"op": "close_until", "stop": j}, {"op": "close_until", "stop": j2}] + [dict(fin)])
        members.append(pre + facts + [{"op": "close_until", "stop": j}, {"op": "close_until", "stop": 0}, {"op": "close_until", "stop": 0}] + [dict(fin)])
        members.append(pre + facts + [{"op": "close_until", "stop": j}, {"op": "close_until", "stop": 1}, {"op": "close_until", "stop": 0}] + [dict(fin)])
    fam2 = [pre + facts + more + [dict(fin)]]
    for j in range(max_stop + 1):
        fam2.append(pre + facts + [{"op": "close_until", "stop": j}] + more + [dict(fin)])
    # an equality asserted between the early stop and the resumption, for every type with two handles and in
    # both argument orders (which class survives depends on it): requests that are pending across the stop
    # refer to elements that are merged before they are carried out
    extra = []
    if not sig.models:
        for t in sig.types:
            if nh.get(t, 0) >= 2 and t in api["new"]:
                a, b = rnd.sample(range(nh[t]), 2)
                fam3 = [pre + facts + [{"op": "equate", "ty": t, "a": a, "b": b}] + [dict(fin)]]
                for j in (1, 2):
                    for x, y in ((a, b), (b, a)):
                        fam3.append(pre + facts + [{"op": "close_until", "stop": j}, {"op": "equate", "ty": t, "a": x, "b": y}] + [dict(fin)])
                extra.append(fam3)
    return members, fam2, extra


def exhaustive_bodies(theory, sig, api, pre_n, max_ops, max_asserts, max_stop, max_handles, name, with_define=True, with_equate=True):
    """all histories of the ApiGen scope, enumerated by TLC; returns (list of step lists, tlc result)"""
    pre, nh = prefix(sig, api, pre_n)
    d = vlib.workdir(name)
    consts = {
        "GTypes": mcgen.sset(mcgen.s(t) for t in sig.types),
        "GArity": mcgen.fun((mcgen.s(r), mcgen.seq(mcgen.s(c) for c in sig.rels[r]["cols"])) for r in sig.order),
        "GInsertable": mcgen.sset(mcgen.s(r) for r in api["insert"]),
        "GDefinable": mcgen.sset(mcgen.s(r) for r in (api["define"] if with_define else [])),
        "GEquateTypes": mcgen.sset(mcgen.s(t) for t in (sig.types if with_equate else [])),
        "GPre": mcgen.fun((mcgen.s(t), str(nh[t])) for t in sig.types),
        "GNewTypes": mcgen.sset(mcgen.s(t) for t in api["new"] if not sig.models),
    }
    cfg = ["SPECIFICATION Spec", "CONSTANTS", "  Types <- GTypes", "  Arity <- GArity", "  Insertable <- GInsertable",
           "  Definable <- GDefinable", "  EquateTypes <- GEquateTypes", "  Pre <- GPre", "  NewTypes <- GNewTypes", f"  MaxOps = {max_ops}",
           f"  MaxAsserts = {max_asserts}", f"  MaxStop = {max_stop}", f"  MaxHandles = {max_handles}",
           "INVARIANTS TypeOK Emit", "CHECK_DEADLOCK FALSE"]
    mod = "MCGen_" + theory
    mcgen.write_mc(d, mod, "ApiGen", consts, cfg)
    r = vlib.tlc(mod, name=name + "-tlc", workers=4, specdir=d, timeout=1800)
    out = []
    for h in r["prints"].get("REPLAY", []):
        steps = list(pre)
        for o in h:
            if o["op"] == "insert":
                steps.append(step_insert(o["rel"], o["args"]))
            elif o["op"] == "define":
                steps.append({"op": "define", "rel": o["rel"], "args": list(o["args"])})
            elif o["op"] == "equate":
                steps.append({"op": "equate", "ty": o["ty"], "a": o["a"], "b": o["b"]})
            elif o["op"] == "new":
                steps.append({"op": "new", "ty": o["ty"]})
            elif o["op"] == "close":
                steps.append({"op": "close"})
            else:
                steps.append({"op": "close_until", "stop": o["stop"]})
        if steps[-1]["op"] != "close":
            steps.append({"op": "close"})
        if valid_model_history(sig, steps):
            out.append(steps)
    # TLC's workers print in scheduling order: sort, so that seeded sampling is reproducible
    out.sort(key=lambda st: json.dumps(st, sort_keys=True))
    return out, r


# ---------------------------------------------------------------------------------------------
# theories with one model declaration (C17): morphism graphs are kept functional and acyclic

def model_universe(sig, api, rnd, n_obj=2, n_mor=2, n_other=2):
    model = list(sig.models)[0]
    mor = model + "Mor"
    steps = []
    nh = {t: 0 for t in sig.types}
    for _ in range(n_obj):
        steps.append({"op": "new", "ty": model})
        nh[model] += 1
    for f in api["define"]:
        cols = sig.rels[f]["cols"]
        if len(cols) == 1 and cols[0] == model:      # constants naming objects
            steps.append({"op": "define", "rel": f, "args": []})
            nh[model] += 1
    for t in api["new"]:
        if t in (model, mor):
            continue
        for _ in range(n_other):
            steps.append({"op": "new", "ty": t})
            nh[t] += 1
    for _ in range(n_mor):
        steps.append({"op": "new", "ty": mor})
        nh[mor] += 1
    return steps, nh


def _acyclic(edges):
    nodes = {x for e in edges for x in e}
    indeg = {n: 0 for n in nodes}
    for a, b in edges:
        if a == b:
            return False
        indeg[b] += 1
    todo = [n for n in nodes if indeg[n] == 0]
    seen = 0
    while todo:
        n = todo.pop()
        seen += 1
        for a, b in edges:
            if a == n:
                indeg[b] -= 1
                if indeg[b] == 0:
                    todo.append(b)
    return seen == len(nodes)


def model_facts(sig, api, rnd, nh, k):
    """member-relation facts and dom/cod facts of an acyclic functional morphism graph"""
    model = list(sig.models)[0]
    mor = model + "Mor"
    pre = eql.snake(model) + "_mor_"
    dom, cod = {}, {}
    facts = []
    members = sig.models[model]
    others = [r for r in api["insert"] if r not in members and not r.startswith(pre)
              and not any(c in (model, mor) for c in sig.rels[r]["cols"])]
    # the objects named by constants are the ones the global rules talk about: half of the fact sets connect
    # two of them by a morphism, so that what a rule derives at one is inherited by the other
    consts = [f for f in api["define"] if sig.rels[f]["cols"] == [model]]
    if len(consts) >= 2 and nh[mor] >= 1 and rnd.random() < 0.5:
        first = nh[model] - len(consts)
        a, b = rnd.sample(range(first, nh[model]), 2)
        m = rnd.randrange(nh[mor])
        dom[m], cod[m] = a, b
        two = [step_insert(pre + "dom", [m, a]), step_insert(pre + "cod", [m, b])]
        rnd.shuffle(two)
        facts += two
        if others:
            rel = rnd.choice(others)
            args = rand_args(rnd, sig, nh, sig.rels[rel]["cols"])
            if args is not None:
                facts.append(step_insert(rel, args))
    eq_types = [t for t in sig.types if t not in (model, mor) and t in api["new"] and nh.get(t, 0) >= 2]
    for _ in range(k):
        r = rnd.random()
        if eq_types and rnd.random() < 0.08:
            # an equality between two elements of a global type that member tuples mention: the own and the
            # all copies of the member relations have to be canonicalized consistently
            t = rnd.choice(eq_types)
            a, b = rnd.sample(range(nh[t]), 2)
            facts.append({"op": "equate", "ty": t, "a": a, "b": b})
            continue
        if r < 0.40 and members:
            rel = rnd.choice(members)
            args = rand_args(rnd, sig, nh, sig.rels[rel]["cols"])
            if args is not None:
                facts.append(step_insert(rel, args))
        elif r < 0.75:
            m = rnd.randrange(nh[mor])
            which = rnd.choice(["dom", "cod"])
            tab = dom if which == "dom" else cod
            if m in tab:
                continue
            o = rnd.randrange(nh[model])
            d2, c2 = dict(dom), dict(cod)
            (d2 if which == "dom" else c2)[m] = o
            edges = [(d2[x], c2[x]) for x in d2 if x in c2]
            if not _acyclic(edges):
                continue
            tab[m] = o
            facts.append(step_insert(pre + which, [m, o]))
        elif others:
            rel = rnd.choice(others)
            args = rand_args(rnd, sig, nh, sig.rels[rel]["cols"])
            if args is not None:
                facts.append(step_insert(rel, args))
    return facts


def family_c17(sig, api, rnd, nfacts, nvariants, tag="fam:C17"):
    pre, nh = model_universe(sig, api, rnd)
    facts = model_facts(sig, api, rnd, nh, nfacts)
    fin = {"op": "close", "tag": tag}
    members = [pre + facts + [dict(fin)]]
    for v in range(nvariants):
        f = list(facts)
        if v > 0:
            rnd.shuffle(f)
        body = []
        for st in f:
            body.append(st)
            if rnd.random() < (0.5 if v == 0 else 0.3):
                body.append({"op": "close"} if rnd.random() < 0.7 else {"op": "close_until", "stop": rnd.randint(0, 2)})
        members.append(pre + body + [dict(fin)])
    return members


def random_history_model(sig, api, rnd, length, p_close=0.12, p_until=0.10):
    pre, nh = model_universe(sig, api, rnd)
    facts = model_facts(sig, api, rnd, nh, length)
    body = []
    for st in facts:
        body.append(st)
        r = rnd.random()
        if r < p_close * 2:
            body.append({"op": "close"})
        elif r < p_close * 2 + p_until * 2:
            body.append({"op": "close_until", "stop": rnd.randint(0, 3)})
    return pre + body + [{"op": "close"}]


def valid_model_history(sig, steps):
    """the quantifier of C17 (and of every model check on theories with a model declaration): functional,
    acyclic morphism graphs; objects and morphisms are never equated by the caller"""
    if not sig.models:
        return True
    model = list(sig.models)[0]
    mor = model + "Mor"
    pre = eql.snake(model) + "_mor_"
    dom, cod = {}, {}
    for st in steps:
        if st["op"] == "equate" and st["ty"] in (model, mor):
            return False
        if st["op"] == "insert":
            cols = sig.rels[st["rel"]]["cols"]
            if st["rel"] in (pre + "dom", pre + "cod"):
                tab = dom if st["rel"] == pre + "dom" else cod
                m, o = st["args"]
                if tab.get(m, o) != o:
                    return False
                tab[m] = o
                if not _acyclic([(dom[x], cod[x]) for x in dom if x in cod]):
                    return False
            elif sig.rels[st["rel"]]["func"] and cols[-1] in (model, mor):
                return False
        if st["op"] == "define" and st["rel"] in (pre + "dom", pre + "cod"):
            return False
    return True
