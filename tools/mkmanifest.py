#!/usr/bin/env python3
"""Writes /verif/MANIFEST.json from the table below (single source of truth for the interface)."""
import json
import os

HERE = os.path.dirname(os.path.dirname(os.path.abspath(__file__)))

MC = "model_checking"
CHECKS = {
    "C01": (MC, "TLC trace validation of real executions (ApiTrace monitor: reference stages evaluated on the dumped closed model + comparison with the reference chase) over TLC-enumerated (ApiGen) and random API histories",
            "small-scope: <=3 caller elements per type, chase bounded by ChaseMaxEls; reference stages from tools/eql.py", "3 C01"),
    "C02": (MC, "TLC trace validation: soundness of the dumped closed model w.r.t. the term-named stratified reference chase (Structure.tla) along the class correspondence Phi",
            "small-scope; closes whose reference chase exceeds the element budget are counted inconclusive", "3 C02"),
    "C03": (MC, "TLC trace validation of history families (same facts, reordered / interleaved closes / duplicates / re-close): every member equals the reference chase and is isomorphic to the first member",
            "design: EqlogEval running the flat rules extracted from the generated module refines the chase; family members also create elements late (per type in the same order)", "3 C03"),
    "C04": (MC, "TLC trace validation: canonicity, query agreement and agreement of every physical index copy (dumped through an impl included next to the generated module) at every condition evaluation and return",
            "field classification by name pattern; unknown fields are a tool error", "3 C04"),
    "C05": (MC, "TLC trace validation: every mutator event is checked against the API contract applied to the previously dumped state; union-find: UnionFind.tla (transcribed parent forest with path halving refines the representative contract) generates every call sequence of the scope for replay on eqlog_runtime::Unification, validated by UFTrace", "small models (<=6 ids per type); union-find on 3 elements x 5 calls exhaustively, 12 elements randomly", "3 C05"),
    "C06": (MC, "TLC trace validation on `!`-free theories: no id allocated and no class added between close_begin and any later observation; driver bound on condition evaluations; EqlogEval liveness run (design)", "termination is checked up to the driver's bound", "3 C06"),
    "C07": (MC, "TLC trace validation of close_until families: soundness at every observation point, return-value contract, resumed histories isomorphic to the direct close", "stop plans enumerate the first evaluations only; resumption by close(), by further close_until calls and after an equality in both argument orders", "3 C07"),
    "C08": (MC, "TLC model checking of the container contract (PrefixTree.tla) + every operation sequence of the small scope and random sequences on arities 0..9 replayed on the real PrefixTreeN, traces validated by PrefixTreeTrace", "universe of 2-4 column values", "3 C08"),
    "C14": (MC, "TLC model checking of the transcribed weight-balanced tree algorithms (WBTreeAlg) and of the map contract (OrdMap) + replay of TLC-enumerated and random operation sequences on WBTreeMap, traces validated by OrdMapTrace (contract + balance on the observed shape)", "hook verif_shape_json reports the physical tree", "3 C14"),
    "C18": (MC, "TLC enumerates all small graphs (Toposort.tla, transcribed Kahn checked against ValidOutput); each graph x new/old splits replayed on morphism_toposort, outputs validated by TopoTrace", "functional dom/cod tables", "3 C18"),
}
CHECKS.update({
    "C15": (MC, "artefact check of the generated API (no way to obtain an enum element except through a constructor) + TLC trace validation: <enum>_case / _cases / new_<enum> checked by ApiTrace!EnumBad after every close and new_<enum>", "enum theories of the corpus", "3 C15"),
    "C16": (MC, "TLC evaluates SemiNaive!ExactlyOnce over all 2^n labellings of every rule family, on the plan extracted from the emitted code (comment block and index fields bound in the body); TLAPS lemma for the ideal plan in the thorough tier", "extraction by tools/extract.py; a parse failure is a tool error", "3 C16"),
    "C17": (MC, "inheritance as implicit reference stages; TLC trace validation of families of histories that differ in when morphisms, dom/cod facts and member facts arrive; known finding KF-C17-1 classified by a counterfactual re-run", "one model declaration, member predicates over global types, acyclic functional morphism graphs", "3 C17"),
    "C19": ("translation_validation", "structural validation of module-mode vs component-mode output (env structs, link names, rule code) by TLC on Link.tla; behavioural: the same API histories executed against a driver built from the module text and one built by process_root() (component libraries), transcripts compared by DetTrace", "component sources for the structural part come from a build with a stand-in rustc; the behavioural part uses the real rustc", "3 C19"),
})
CHECKS.update({
    "C12": (MC, "TLC model checking of Build.tla (every file-system mutation one action, crash before each, rustc failure, worker pool) + TLC-enumerated edit/build/crash histories executed on the real CLI (hook verif_fs_point, stand-in rustc), outcomes validated by BuildTrace against clean builds", "4 versions of one theory, 2 components; stand-in rustc", "3 C12"),
    "C13": ("exploration", "Build.tla Deterministic (design) + repeated compilations under different thread counts, directory layouts, completion orders and processes; DetTrace (TLC) requires byte-identical outputs", "quantifies over process environments that cannot be enumerated: exploration", "3 C13"),
})
CHECKS.update({
    "C11": ("exploration", "Diag.tla (transcribed position arithmetic, all texts <=5 chars) model-checked by TLC + token-level / line-ending-level mutants of valid and invalid programs through the real CLI, outcomes validated by DiagTrace (TLC)", "the input space is all UTF-8 text: exploration; stderr parsed by line patterns", "3 C11"),
})
CHECKS.update({
    "C10": ("exploration", "Lang.tla reference static semantics: TLC enumerates all two-statement rules of the fragment with their verdict; a stratified sample is given to the real CLI and LangTrace (TLC) recomputes Errors(prog) and compares accept/reject, class and line; planted symbol-level single-defect mutants; corpus as positive side", "fragment: flat rules over a fixed signature (no branch/match in the enumerated part); classes recognised by message text", "3 C10"),
})
CHECKS.update({
    "C09": ("exploration", "programs: Lang.tla well-formed programs (TLC-enumerated), corpus, repository theories, extremes; module mode: CLI exit status + rustc type-check of the emitted modules; component mode: real rustc per rule library, link, smoke run", "rustc is the oracle; there is no model of Rust", "3 C09"),
    "C20": ("exploration", "the same histories executed in fresh processes under perturbed address-space / heap / environment / stack conditions; transcripts compared line by line by DetTrace (TLC); EqlogEval names the design's sources of nondeterminism", "process-level perturbations only", "3 C20"),
})
NOT_YET = {
}
NA = {
    "C09": "not covered yet in this revision (planned: Lang.tla-generated programs compiled in both build modes)",
    "C10": "not covered yet in this revision (planned: Lang.tla reference static semantics vs CLI verdicts)",
    "C11": "not covered yet in this revision (planned: Diag.tla + token-level input enumeration through the CLI)",
    "C12": "not covered yet in this revision (planned: Build.tla crash/edit histories replayed on the CLI)",
    "C13": "not covered yet in this revision",
    "C15": "not covered yet in this revision (monitor predicates exist; enum theories not yet in the corpus)",
    "C16": "not covered yet in this revision (planned: SemiNaive.tla on extracted plans)",
    "C17": "not covered yet in this revision (planned: inheritance as implicit stages; model theories not yet in the corpus)",
    "C19": "not covered yet in this revision",
    "C20": "not covered yet in this revision",
}


def main():
    checks = []
    for pid, (cat, text, note, ref) in sorted(CHECKS.items()):
        checks.append({
            "property_id": pid,
            "quick_cmd": f"./check {pid} quick",
            "thorough_cmd": f"./check {pid} thorough",
            "evidence_file": f"/verif/evidence/{pid}.json",
            "replay_cmd_template": f"./check {pid} --replay {{path}}",
            "engine": "tlc",
            "level_claimed": {"category": cat, "text": text, "design_ref": "DESIGN.md section " + ref},
            "level_note": note,
            "technique": "TLA+ specification checked with TLC; bound to the code by replay of TLC-generated behaviours and TLC trace validation of recorded executions",
        })
    m = {
        "version": 1,
        "setup_cmd": "./setup.sh",
        "hooks": {
            "guard": "--cfg eqlog_verif",
            "enable": "harness/.cargo/config.toml passes --cfg eqlog_verif to every crate built in the harness workspace (path dependencies on /repo/eqlog and /repo/eqlog-runtime)",
            "baseline_off_cmd": "cd /repo && cargo test --workspace --no-fail-fast --offline",
            "source_commits": ["8277b65", "ce78374", "6913443", "3547595"],
            "add_only": True,
        },
        "engines": [{"name": "tlc", "path": "/verif/spec", "serves_properties": sorted(CHECKS), "kind_free_text": "TLA+ specifications model-checked with TLC; trace validation and behaviour replay through the Rust harness in /verif/harness"}],
        "checks": checks,
        "notes": "see DESIGN.md; known_findings.jsonl lists repaired defects (kind=fixed) and recorded ones (kind=known)",
        "not_applicable": [{"property_id": k, "reason": v} for k, v in sorted(NA.items()) if k not in CHECKS],
    }
    with open(os.path.join(HERE, "MANIFEST.json"), "w") as f:
        json.dump(m, f, indent=1)


if __name__ == "__main__":
    main()
