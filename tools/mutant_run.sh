#!/bin/sh
# usage: tools/mutant_run.sh <name> <patch.diff> <Cxx> [<Cyy> ...]
# Runs the given checks (tier $TIER, default quick) against a patched copy of /repo WITHOUT touching
# /repo: a private mount namespace binds the patched copy over /repo and a copy of /verif (with its
# warm harness target) over /verif.  Several of these can run in parallel.  Prints one line per check
# and leaves the outputs in /tmp/mut/<name>/out/.  (The reference procedure - apply to /repo, run,
# checkout - is tools/try_patch.sh; this one is for sweeps while /repo is in use.)
set -u
N="$1"; P="$(readlink -f "$2")"; shift 2
D=/tmp/mut/$N
rm -rf "$D"; mkdir -p "$D/out"
# a copy with .git (eqlog/build.rs asks git for HEAD) and with the regenerated prebuilt model, mtimes kept
rsync -a --exclude=/target /repo/ "$D/repo/"
( cd "$D/repo" && git apply "$P" ) || { echo "$N: patch does not apply"; rm -rf "$D"; exit 2; }
mkdir -p "$D/verif"
( cd /verif && tar -c --exclude=./work --exclude=./replays --exclude=./.git . ) | tar -x -C "$D/verif"
mkdir -p "$D/verif/work" "$D/verif/replays"
# generated inputs that setup.sh creates
[ -d /verif/work/gen_in ] && cp -a /verif/work/gen_in /verif/work/gen_out "$D/verif/work/" 2>/dev/null
TIER=${TIER:-quick}
for c in "$@"; do
  s=$(date +%s)
  unshare -m sh -c "mount --bind $D/repo /repo && mount --bind $D/verif /verif && cd /verif && ./check $c $TIER" > "$D/out/$c.out" 2> "$D/out/$c.err"; rc=$?
  e=$(date +%s)
  echo "$N $c rc=$rc $((e-s))s viol=$(grep -c '^VIOLATION' $D/out/$c.out) known=$(grep -c '^KNOWN-FINDING' $D/out/$c.out) :: $(grep -h '^  ->' $D/out/$c.err | head -2 | tr '\n' '|' | cut -c1-300)"
done
mkdir -p /tmp/mut_results; rm -rf "/tmp/mut_results/$N"; cp -r "$D/out" "/tmp/mut_results/$N" 2>/dev/null
rm -rf "$D/repo" "$D/verif"
