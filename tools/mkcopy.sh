#!/bin/sh
# usage: mkcopy.sh <name>  -> /tmp/wt/<name>: a copy of /repo (with .git, mtimes and warm target, without rustc's incremental cache)
set -e
rsync -a --exclude=/target/debug/incremental /repo/ /tmp/wt/$1/
echo /tmp/wt/$1
