#!/bin/sh
# usage: /tmp/inrepo.sh <tree> <command...>
# runs the command in a private mount namespace in which <tree> is mounted at /repo (so that cargo's
# fingerprints of the warm target directory stay valid), with /repo as working directory
T="$1"; shift
exec unshare -m sh -c 'mount --bind "$0" /repo && cd /repo && exec "$@"' "$T" "$@"
