"""Theory corpus handling: compile the selected .eql theories with the compiler under test (module
mode), compute signature + reference stages with the independent front end, generate the driver
adapters, build the model driver."""
import os
import shutil

import eql
import gen_adapter
import vlib

THEORIES = os.path.join(vlib.VERIF, "theories")
GEN_IN = os.path.join(vlib.WORK, "gen_in")
GEN_OUT = os.path.join(vlib.WORK, "gen_out")
GEN_DIR = os.path.join(vlib.HARNESS, "model-driver", "src", "gen")


def all_names():
    return sorted(f[:-4] for f in os.listdir(THEORIES) if f.endswith(".eql"))


def prepare(names=None, build=True):
    """returns {name: (sig, stages)}; compiles *all* corpus theories so that the driver binary is
    the same whichever check asks for it"""
    every = all_names()
    names = names or every
    vlib.cargo_build(["eqlogc"])
    os.makedirs(GEN_IN, exist_ok=True)
    os.makedirs(GEN_OUT, exist_ok=True)
    for f in os.listdir(GEN_IN):
        if f[:-4] not in every:
            os.remove(os.path.join(GEN_IN, f))
    for n in every:
        src = os.path.join(THEORIES, n + ".eql")
        dst = os.path.join(GEN_IN, n + ".eql")
        if not os.path.exists(dst) or open(dst).read() != open(src).read():
            shutil.copyfile(src, dst)
    r = vlib.run([os.path.join(vlib.BIN, "eqlogc"), GEN_IN, GEN_OUT], timeout=600)
    if r.returncode != 0:
        raise vlib.ToolError(f"the compiler under test rejects the corpus (rc={r.returncode}):\n{r.stderr[-3000:]}")
    out = {}
    pairs = []
    for n in every:
        sig, stages = eql.load(os.path.join(THEORIES, n + ".eql"))
        pairs.append((sig, os.path.join(GEN_OUT, n + ".eql.rs")))
        if n in names:
            out[n] = (sig, stages)
    gen_adapter.write_all(pairs, GEN_DIR)
    if build:
        vlib.cargo_build(["model-driver"])
    return out


COMP_SRC = os.path.join(vlib.HARNESS, "comp-driver", "src")


def prepare_component_driver():
    """the same driver against a process_root() component build (real rustc per rule library)"""
    prepare(build=False)
    every = all_names()
    for f in os.listdir(COMP_SRC):
        if f.endswith(".eql") and f[:-4] not in every:
            os.remove(os.path.join(COMP_SRC, f))
    pairs = []
    for n in every:
        src = os.path.join(THEORIES, n + ".eql")
        dst = os.path.join(COMP_SRC, n + ".eql")
        if not os.path.exists(dst) or open(dst).read() != open(src).read():
            shutil.copyfile(src, dst)
        sig, _ = eql.load(src)
        pairs.append((sig, os.path.join(GEN_OUT, n + ".eql.rs")))
    gen_adapter.write_all(pairs, os.path.join(COMP_SRC, "gen"),
                          include_fmt='concat!(env!("EQLOG_OUT_DIR"), "/comp-driver/src/{theory}.eql.rs")')
    vlib.cargo_build(["comp-driver"], timeout=7200)
