"""Theory corpus handling: compile the selected .eql theories with the compiler under test (module
mode), compute signature + reference stages with the independent front end, generate the driver
adapters, build the model driver."""
import os
import shutil

import eql
import gen_adapter
import vlib

THEORIES = os.path.join(vlib.VERIF, "theories")
GEN_IN = os.path.join(vlib.WORK, "gen_in")
GEN_OUT = os.path.join(vlib.WORK, "gen_out")
GEN_DIR = os.path.join(vlib.HARNESS, "model-driver", "src", "gen")


def all_names():
    return sorted(f[:-4] for f in os.listdir(THEORIES) if f.endswith(".eql"))


def prepare(names=None, build=True):
    """returns {name: (sig, stages)}; compiles *all* corpus theories so that the driver binary is
    the same whichever check asks for it"""
    every = all_names()
    names = names or every
    vlib.cargo_build(["eqlogc"])
    os.makedirs(GEN_IN, exist_ok=True)
    os.makedirs(GEN_OUT, exist_ok=True)
    for f in os.listdir(GEN_IN):
        if f[:-4] not in every:
            os.remove(os.path.join(GEN_IN, f))
    for n in every:
        src = os.path.join(THEORIES, n + ".eql")
        dst = os.path.join(GEN_IN, n + ".eql")
        if not os.path.exists(dst) or open(dst).read() != open(src).read():
            shutil.copyfile(src, dst)
    r = vlib.run([os.path.join(vlib.BIN, "eqlogc"), GEN_IN, GEN_OUT], timeout=600)
    if r.returncode != 0:
        raise vlib.ToolError(f"the compiler under test rejects the corpus (rc={r.returncode}):\n{r.stderr[-3000:]}")
    out = {}
    pairs = []
    for n in every:
        sig, stages = eql.load(os.path.join(THEORIES, n + ".eql"))
        pairs.append((sig, os.path.join(GEN_OUT, n + ".eql.rs")))
        if n in names:
            out[n] = (sig, stages)
    gen_adapter.write_all(pairs, GEN_DIR)
    if build:
        vlib.cargo_build(["model-driver"])
    return out


COMP_SRC = os.path.join(vlib.HARNESS, "comp-driver", "src")


def prepare_component_driver():
    """the same driver against a process_root() component build (real rustc per rule library)"""
    prepare(build=False)
    every = all_names()
    for f in os.listdir(COMP_SRC):
        if f.endswith(".eql") and f[:-4] not in every:
            os.remove(os.path.join(COMP_SRC, f))
    pairs = []
    for n in every:
        src = os.path.join(THEORIES, n + ".eql")
        dst = os.path.join(COMP_SRC, n + ".eql")
        if not os.path.exists(dst) or open(dst).read() != open(src).read():
            shutil.copyfile(src, dst)
        sig, _ = eql.load(src)
        pairs.append((sig, os.path.join(GEN_OUT, n + ".eql.rs")))
    gen_adapter.write_all(pairs, os.path.join(COMP_SRC, "gen"),
                          include_fmt='concat!(env!("EQLOG_OUT_DIR"), "/comp-driver/src/{theory}.eql.rs")')
    vlib.cargo_build(["comp-driver"], timeout=7200)


GENP_IN = os.path.join(vlib.WORK, "genp_in")
GENP_OUT = os.path.join(vlib.WORK, "genp_out")
GENP_DIR = os.path.join(vlib.HARNESS, "gen-driver", "src", "gen")


def prepare_generated(programs):
    """programs: {name: source text}; compiles them in module mode, builds gen-driver over them.
    Returns ({name: (sig, stages)}, {name: reason}) - programs outside the supported fragment of the
    reference front end or rejected by the compiler are skipped with a reason."""
    vlib.cargo_build(["eqlogc"])
    shutil.rmtree(GENP_IN, ignore_errors=True)
    shutil.rmtree(GENP_OUT, ignore_errors=True)
    os.makedirs(GENP_IN)
    out, skipped, pairs = {}, {}, []
    for n, text in sorted(programs.items()):
        try:
            sig = eql.Sig(eql.parse(text), n)
            stages = eql.denote(sig)
        except eql.ParseError as e:
            skipped[n] = "reference front end: " + str(e)
            continue
        with open(os.path.join(GENP_IN, n + ".eql"), "w") as f:
            f.write(text)
        out[n] = (sig, stages)
    r = vlib.run([os.path.join(vlib.BIN, "eqlogc"), GENP_IN, GENP_OUT], timeout=1800)
    if r.returncode != 0:
        raise vlib.ToolError(f"the compiler rejects a generated program that the reference accepts (rc={r.returncode}): {r.stderr[-1500:]}")
    for n in sorted(out):
        pairs.append((out[n][0], os.path.join(GENP_OUT, n + ".eql.rs")))
    gen_adapter.write_all(pairs, GENP_DIR)
    vlib.cargo_build(["gen-driver"], timeout=7200)
    return out, skipped
