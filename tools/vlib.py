"""Shared machinery of the /verif checks: building the harness from /repo's working tree, running
TLC (model checking, behaviour generation, trace validation), evidence and verdict output."""
import hashlib
import json
import os
import re
import shutil
import subprocess
import sys
import time

VERIF = os.path.dirname(os.path.dirname(os.path.abspath(__file__)))
SPEC = os.path.join(VERIF, "spec")
WORK = os.path.join(VERIF, "work")
HARNESS = os.path.join(VERIF, "harness")
EVIDENCE = os.path.join(VERIF, "evidence")
REPLAYS = os.path.join(VERIF, "replays")
BIN = os.path.join(HARNESS, "target", "debug")
TLA_JAR = "/opt/veriftools/tla/tla2tools.jar"


class ToolError(Exception):
    """The checker itself failed (not the code under test): exit status 2, no verdict."""


def seed():
    try:
        return int(os.environ.get("VERIF_SEED", "1"))
    except ValueError:
        return 1


def log(*a):
    print(*a, file=sys.stderr, flush=True)


def workdir(name):
    d = os.path.join(WORK, name)
    shutil.rmtree(d, ignore_errors=True)
    os.makedirs(d, exist_ok=True)
    return d


def cargo_build(packages, timeout=3600):
    """(Re)build harness packages against /repo's current working tree (hooks on via
    harness/.cargo/config.toml).  A failure here is a tool error unless the repository itself
    does not compile, which is reported the same way (nothing can be decided)."""
    lock = os.path.join(HARNESS, "Cargo.lock")
    if not os.path.exists(lock):
        raise ToolError("harness/Cargo.lock missing")
    cmd = ["cargo", "build", "--offline", "--quiet"]
    for p in packages:
        cmd += ["-p", p]
    t0 = time.time()
    env = dict(os.environ)
    h = hashlib.sha1()
    tdir = os.path.join(VERIF, "theories")
    for f in sorted(os.listdir(tdir)):
        h.update(f.encode())
        h.update(open(os.path.join(tdir, f), "rb").read())
    env["VERIF_CORPUS_HASH"] = h.hexdigest()
    r = subprocess.run(cmd, cwd=HARNESS, capture_output=True, text=True, timeout=timeout, env=env)
    if r.returncode != 0:
        raise ToolError("cargo build failed:\n" + r.stderr[-4000:])
    log(f"[build] {' '.join(packages)} {time.time()-t0:.1f}s")


def run(cmd, timeout=600, env=None, cwd=None, input=None):
    e = dict(os.environ)
    if env:
        e.update(env)
    return subprocess.run(cmd, capture_output=True, text=True, timeout=timeout, env=e, cwd=cwd, input=input)


_STATES = re.compile(r"(\d+) states generated, (\d+) distinct states found")


def tlc(module, cfg=None, *, name, workers=4, env=None, simulate=None, depth=None, tseed=None,
        timeout=1800, heap="4g", deque=False, extra=None, allow_violation=False, specdir=None, coverage=False):
    """Run TLC on spec/<module>.tla.  Returns dict(out, generated, distinct, ok, violated, prints).
    `prints` maps a tag to the list of decoded payloads of lines printed as <<"TAG", "json">>."""
    md = workdir("tlc-" + name)
    cmd = ["timeout", str(timeout), "tlc"]
    jopts = f"-Xmx{heap} -Xss1g"
    if deque:
        jopts += " -Dtlc2.tool.queue.IStateQueue=StateDeque"
    cmd += ["-workers", str(workers), "-metadir", md, "-cleanup", "-noGenerateSpecTE"]
    if simulate:
        cmd += ["-simulate", f"num={simulate}"]
        if depth:
            cmd += ["-depth", str(depth)]
    if tseed is not None:
        cmd += ["-seed", str(tseed)]
    if extra:
        cmd += extra
    if coverage:
        cmd += ["-coverage", "1"]
    sd = specdir or SPEC
    cmd += ["-config", os.path.join(sd, (cfg or module) + ".cfg"), os.path.join(sd, module + ".tla")]
    e = dict(os.environ)
    e["JAVA_TOOL_OPTIONS"] = jopts
    if env:
        e.update({k: str(v) for k, v in env.items()})
    t0 = time.time()
    r = subprocess.run(cmd, capture_output=True, text=True, env=e, cwd=md)
    out = r.stdout + r.stderr
    shutil.rmtree(md, ignore_errors=True)
    res = {"out": out, "rc": r.returncode, "wall": time.time() - t0}
    m = _STATES.findall(out)
    res["generated"] = int(m[-1][0]) if m else 0
    res["distinct"] = int(m[-1][1]) if m else 0
    res["violated"] = re.findall(r"Invariant (\w+) is violated", out) + \
        re.findall(r"property (\w+) is violated", out) + \
        (["<action property>"] if "Action property" in out and "violated" in out else []) + \
        (["<temporal>"] if "Temporal properties were violated" in out else [])
    res["ok"] = ("No error has been found" in out) or (simulate and "Error:" not in out and r.returncode in (0,))
    res["prints"] = parse_prints(out)
    # per-action coverage (vacuity guard): action -> [distinct states it produced, states it generated], last report wins
    res["actions"] = {}
    for m in re.finditer(r"^<(\w+) line \d+, col \d+ to line \d+, col \d+ of module (\w+)(?: \((\d+) (\d+) \d+ (\d+)\))?>: (\d+):(\d+)", out, re.M):
        name = m.group(1)
        if m.group(3):
            # an unnamed disjunct of Next: name it by the text of that disjunct
            try:
                line = open(os.path.join(sd, m.group(2) + ".tla")).read().splitlines()[int(m.group(3)) - 1]
                frag = line[int(m.group(4)) - 1:int(m.group(5))]
                ident = re.findall(r"[A-Z]\w*(?=\()", frag)
                name = ident[-1] if ident else f"{name}@{m.group(3)}"
            except (OSError, IndexError):
                name = f"{name}@{m.group(3)}"
        res["actions"][name] = [int(m.group(6)), int(m.group(7))]
    # behaviours printed by several workers arrive in scheduling order: canonical order, so that
    # seeded sampling from them is reproducible
    for tag in ("REPLAY", "GRAPH", "PROG"):
        if tag in res["prints"]:
            res["prints"][tag].sort(key=lambda x: json.dumps(x, sort_keys=True))
    if r.returncode == 124:
        raise ToolError(f"TLC timed out on {module} after {timeout}s")
    if not res["ok"] and not res["violated"] and not allow_violation:
        raise ToolError(f"TLC failed on {module} (rc={r.returncode}):\n" + out[-3000:])
    if not res["ok"] and res["violated"] and not allow_violation:
        raise ToolError(f"TLC reports {res['violated']} on {module}:\n" + out[-3000:])
    return res


_PRINT = re.compile(r'^<<"([A-Z_]+)", (".*")>>\s*$')


def parse_prints(out):
    prints = {}
    for line in out.splitlines():
        m = _PRINT.match(line)
        if not m:
            continue
        try:
            payload = json.loads(json.loads(m.group(2)))
        except Exception:
            try:
                payload = json.loads(m.group(2))
            except Exception:
                payload = m.group(2)
        prints.setdefault(m.group(1), []).append(payload)
    return prints


def validate_trace(module, trace_path, *, name, cfg=None, env=None, timeout=1800, heap="4g", specdir=None):
    """Trace validation: TLC replays the ndjson file through spec/<module>.tla (a monitor).
    Returns the decoded RESULT record; raises ToolError if the trace was not consumed."""
    e = {"TRACE": trace_path}
    if env:
        e.update(env)
    r = tlc(module, cfg, name=name, workers=1, env=e, timeout=timeout, heap=heap, deque=True, specdir=specdir)
    if "UNMATCHED" in r["prints"] or "RESULT" not in r["prints"]:
        raise ToolError(f"trace {trace_path} not fully consumed by {module}:\n" + r["out"][-3000:])
    res = r["prints"]["RESULT"][-1]
    res["_states"] = r["distinct"]
    res["_generated"] = r["generated"]
    res["_wall"] = r["wall"]
    return res


def write_ndjson(path, rows):
    with open(path, "w") as f:
        for r in rows:
            f.write(json.dumps(r, separators=(",", ":")) + "\n")


def read_ndjson(path):
    with open(path) as f:
        return [json.loads(l) for l in f if l.strip()]


# ---------------------------------------------------------------------------------------------
# verdicts

def known_findings():
    p = os.path.join(VERIF, "known_findings.jsonl")
    out = []
    if os.path.exists(p):
        for l in open(p):
            l = l.strip()
            if l and not l.startswith("#"):
                out.append(json.loads(l))
    return out


class Verdict:
    """Collects what a check run found; prints VIOLATION / KNOWN-FINDING lines; writes evidence."""

    def __init__(self, prop, tier, level):
        self.prop = prop
        self.tier = tier
        self.level = level
        self.t0 = time.time()
        self.violations = []
        self.known = []
        self.coverage = {}
        self.assumptions = []

    def violation(self, what, replay):
        """Record a violation; `replay` is a JSON-serialisable object that reproduces it."""
        os.makedirs(REPLAYS, exist_ok=True)
        blob = json.dumps({"property": self.prop, "what": what, "replay": replay}, sort_keys=True, indent=1)
        h = hashlib.sha1(blob.encode()).hexdigest()[:12]
        path = os.path.join(REPLAYS, f"{self.prop}-{h}.json")
        with open(path, "w") as f:
            f.write(blob)
        self.violations.append((what, path))
        print(f"VIOLATION property={self.prop} replay={path}", flush=True)
        log(f"  -> {what}")

    def known_finding(self, kf, detail=""):
        if kf["id"] not in [k["id"] for k in self.known]:
            self.known.append(kf)
            print(f"KNOWN-FINDING: property={self.prop} {kf['id']} {kf['what']} {detail}".rstrip(), flush=True)

    def finish(self):
        os.makedirs(EVIDENCE, exist_ok=True)
        ev = {
            "property_id": self.prop,
            "tier": self.tier,
            "seed": seed(),
            "level": self.level,
            "coverage": self.coverage,
            "assumptions": self.assumptions,
            "wall_s": round(time.time() - self.t0, 2),
            "violations": len(self.violations),
            "known_findings_seen": [k["id"] for k in self.known],
        }
        with open(os.path.join(EVIDENCE, f"{self.prop}.json"), "w") as f:
            json.dump(ev, f, indent=1, sort_keys=True)
        return 1 if self.violations else 0
