#!/bin/sh
# usage: tools/confirm_seed.sh <seed dir with patch.diff demo/run.sh> <name>
# Confirms a seeded change independently of the sub-agent that wrote it, on a scratch copy of /repo that
# is mounted at /repo in a private mount namespace (so the warm target directory stays valid):
#   1. the patch applies to /repo's HEAD,  2. the repository's whole test suite passes with it,
#   3. the demonstration passes on the unchanged tree (/tmp/wt/base, a pristine copy) and fails with the patch.
# Writes <seed dir>/confirm.log, prints one summary line, removes the scratch copy.
set -u
S="$(readlink -f "$1")"; N="$2"
M=/tmp/confirm/$N
mkdir -p /tmp/confirm; rm -rf "$M"
export CARGO_NET_OFFLINE=true
[ -d /tmp/wt/base ] || rsync -a --exclude=/target/debug/incremental /repo/ /tmp/wt/base/
rsync -a --exclude=/target/debug/incremental /repo/ "$M/"
( cd "$M" && git apply "$S/patch.diff" ) || { echo "$N: PATCH DOES NOT APPLY"; rm -rf "$M"; exit 2; }
L="$S/confirm.log"; : > "$L"
run_tests() { /verif/tools/inrepo.sh "$M" cargo test --workspace --no-fail-fast --offline > "$S/confirm_tests.log" 2>&1; }
if [ "${SKIP_TESTS:-0}" = 1 ] && [ -s "$S/confirm_tests.log" ]; then trc=0    # the suite already ran for this patch: its log is kept
else
run_tests; trc=$?
if [ $trc != 0 ] && grep -q "Failed to find eqlog runtime rlib" "$S/confirm_tests.log"; then run_tests; trc=$?; fi
fi
passed=$(grep -E "^test result:" "$S/confirm_tests.log" | sed -E 's/.* ([0-9]+) passed.*/\1/' | paste -sd+ | bc)
failed=$(grep -E "^test result:" "$S/confirm_tests.log" | sed -E 's/.* ([0-9]+) failed.*/\1/' | paste -sd+ | bc)
echo "--- demo on the unchanged tree" >> "$L"
( cd "$S/demo" && timeout 7200 /verif/tools/inrepo.sh /tmp/wt/base bash "$S/demo/run.sh" /repo ) >> "$L" 2>&1; d0=$?
echo "--- demo on the patched tree" >> "$L"
( cd "$S/demo" && timeout 7200 /verif/tools/inrepo.sh "$M" bash "$S/demo/run.sh" /repo ) >> "$L" 2>&1; d1=$?
echo "$N: tests rc=$trc passed=$passed failed=$failed | demo unchanged rc=$d0 | demo patched rc=$d1" | tee -a "$L"
rm -rf "$M"
if [ "$trc" = 0 ] && [ "$passed" = 184 ] && [ "$d0" = 0 ] && [ "$d1" != 0 ]; then echo "$N: CONFIRMED" | tee -a "$L"; exit 0; else echo "$N: NOT CONFIRMED" | tee -a "$L"; exit 1; fi
