#!/bin/sh
# usage: tools/confirm_seed.sh <seed dir with patch.diff demo/run.sh> <name>
# Confirms a seeded change by hand-independent means, in scratch worktrees under /tmp/confirm:
#   1. the patch applies to /repo's HEAD,  2. the repository's whole test suite passes with it,
#   3. the demonstration passes on the unchanged tree and fails with the patch.
# Prints a summary and writes <seed dir>/confirm.log.  Removes its worktrees afterwards.
set -u
S="$(readlink -f "$1")"; N="$2"
B=/tmp/confirm/base; M=/tmp/confirm/$N
mkdir -p /tmp/confirm
export CARGO_NET_OFFLINE=true
if [ ! -d "$B" ]; then
  git -C /repo worktree add --detach "$B" HEAD >/dev/null 2>&1
  cp -a /repo/target "$B/target"; cp -a /repo/eqlog-eqlog/prebuilt/eqlog.rs "$B/eqlog-eqlog/prebuilt/eqlog.rs"
fi
git -C /repo worktree remove --force "$M" >/dev/null 2>&1; rm -rf "$M"
git -C /repo worktree add --detach "$M" HEAD >/dev/null 2>&1
cp -a /repo/eqlog-eqlog/prebuilt/eqlog.rs "$M/eqlog-eqlog/prebuilt/eqlog.rs"
( cd "$M" && git apply "$S/patch.diff" ) || { echo "$N: PATCH DOES NOT APPLY"; git -C /repo worktree remove --force "$M"; exit 2; }
cp -a /repo/target "$M/target"
L="$S/confirm.log"; : > "$L"
( cd "$M" && cargo test --workspace --no-fail-fast --offline ) >> "$L" 2>&1; trc=$?
passed=$(grep -E "^test result:" "$L" | sed -E 's/.* ([0-9]+) passed.*/\1/' | paste -sd+ | bc)
failed=$(grep -E "^test result:" "$L" | sed -E 's/.* ([0-9]+) failed.*/\1/' | paste -sd+ | bc)
echo "--- demo on unchanged tree" >> "$L"
( cd "$S/demo" && sh ./run.sh "$B" ) >> "$L" 2>&1; d0=$?
echo "--- demo on patched tree" >> "$L"
( cd "$S/demo" && sh ./run.sh "$M" ) >> "$L" 2>&1; d1=$?
echo "$N: tests rc=$trc passed=$passed failed=$failed | demo unchanged rc=$d0 | demo patched rc=$d1" | tee -a "$L"
git -C /repo worktree remove --force "$M" >/dev/null 2>&1; rm -rf "$M"
if [ "$trc" = 0 ] && [ "$d0" = 0 ] && [ "$d1" != 0 ]; then echo "$N: CONFIRMED"; exit 0; else echo "$N: NOT CONFIRMED"; exit 1; fi
