#!/bin/sh
# usage: tools/try_patch.sh <patch.diff> <Cxx> [<Cyy> ...]
# applies a seeded change to /repo, runs the given checks (quick tier), and undoes the change.
set -u
P="$1"; shift
cd "$(dirname "$0")/.."
git -C /repo apply --check "$P" || { echo "patch does not apply"; exit 2; }
git -C /repo apply "$P"
trap 'git -C /repo checkout -- . ; git -C /repo status --short' EXIT
for c in "$@"; do
  s=$(date +%s)
  ./check $c quick > work/try_$c.out 2> work/try_$c.err; rc=$?
  e=$(date +%s)
  echo "$c rc=$rc $((e-s))s viol=$(grep -c '^VIOLATION' work/try_$c.out) known=$(grep -c '^KNOWN-FINDING' work/try_$c.out)"
  grep -h "^  ->" work/try_$c.err | head -3
done
