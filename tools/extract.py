"""Artefact extraction from generated Rust text (binding (C)): the semi-naive plan of every rule
function (from the flat-rule comment above it and, independently, from the index fields its body
binds per premise position), the environment structs / link names on both sides of the component
boundary, and the public API surface."""
import re
from collections import OrderedDict

from vlib import ToolError

RULE_FN = re.compile(r"((?://[^\n]*\n)+)fn (\w+)\(env: &mut (\w+)\) \{\n(.*?)(?=\n// rule |\n#\[unsafe\(no_mangle\)\])", re.S)
PREM = re.compile(r"^- (?P<rel>[^\s(]+?)(\[diag=(?P<diag>[^\]]*)\])?\((?P<args>.*)\) \[(?P<age>new|old|all)\]$")
CONCL = re.compile(r"^- (?P<rel>.+?)\((?P<args>.*)\)$")
BIND = re.compile(r"let set(\d+)_(\w+?)_r0 =\s*\n\s*env\.(\w+)")


def rule_functions(text):
    out = []
    for m in RULE_FN.finditer(text):
        comment, fname, env, body = m.groups()
        lines = [l[3:] if l.startswith("// ") else l[2:] for l in comment.strip().split("\n")]
        if not lines or not lines[0].startswith("rule "):
            # comment block may contain unrelated leading comments; keep the part from "rule "
            idx = [i for i, l in enumerate(lines) if l.startswith("rule ")]
            if not idx:
                raise ToolError(f"no rule header above fn {fname}")
            lines = lines[idx[-1]:]
        if lines[0] != f"rule {fname}:":
            raise ToolError(f"comment header {lines[0]!r} does not name fn {fname}")
        try:
            i_if, i_then = lines.index("if:"), lines.index("then:")
        except ValueError:
            raise ToolError(f"malformed flat rule comment above {fname}")
        prem = []
        for l in lines[i_if + 1:i_then]:
            if not l.strip():
                continue
            mm = PREM.match(l)
            if not mm:
                raise ToolError(f"cannot parse premise line {l!r} of {fname}")
            prem.append({"rel": mm.group("rel") + (f"[diag={mm.group('diag')}]" if mm.group("diag") is not None else ""),
                         "args": [a.strip() for a in mm.group("args").split(",") if a.strip()], "age": mm.group("age")})
        concl = []
        for l in lines[i_then + 1:]:
            if not l.strip():
                continue
            mm = CONCL.match(l)
            if not mm:
                raise ToolError(f"cannot parse conclusion line {l!r} of {fname}")
            concl.append(mm.group("rel") + "(" + ",".join(a.strip() for a in mm.group("args").split(",") if a.strip()) + ")")
        reads = {}
        for mm in BIND.finditer(body):
            k = int(mm.group(1))
            field = mm.group(3)
            age = "new" if "_new_" in field else "old" if "_old_" in field else "?"
            reads.setdefault(k, set()).add(age)
        body_ages = []
        for k in range(len(prem)):
            r = reads.get(k, set())
            body_ages.append("all" if r == {"new", "old"} else (next(iter(r)) if len(r) == 1 else "none"))
        out.append({"fn": fname, "env": env, "prem": prem, "concl": concl, "body_ages": body_ages})
    return out


def families(text, program):
    """groups rule functions into families (same name up to the last _<i>) and renders them for SemiNaive.tla"""
    fams = OrderedDict()
    for f in rule_functions(text):
        fams.setdefault(re.sub(r"_\d+$", "", f["fn"]), []).append(f)
    out = []
    for name, members in fams.items():
        # the functions of one family all carry the family name plus an index; functionality_<k> are
        # one-member families of the implicit single-valuedness rule
        sym = name == "functionality"
        if sym:
            for m in members:
                out.append(render_family(program, m["fn"], [m], True))
        else:
            out.append(render_family(program, name, members, False))
    return out


def render_family(program, name, members, sym):
    keys = []
    for m in members:
        for a in m["prem"]:
            k = a["rel"] + "(" + ",".join(a["args"]) + ")"
            if k not in keys:
                keys.append(k)
    if sym:
        # the two atoms of the single-valuedness rule differ only in the name of the result variable
        keys = [a["rel"] + "(" + ",".join(a["args"]) + ")" for a in members[0]["prem"]]
    ms = []
    for m in members:
        atoms = [a["rel"] + "(" + ",".join(a["args"]) + ")" for a in m["prem"]]
        ms.append({"fn": m["fn"], "atoms": sorted(atoms), "concl": m["concl"],
                   "reads": [[keys.index(k) + 1, a["age"]] for k, a in zip(atoms, m["prem"])],
                   "body": [[keys.index(k) + 1, ba] for k, ba in zip(atoms, m["body_ages"])]})
    return {"program": program, "name": name, "natoms": len(keys), "sym": sym, "members": ms}


# ---------------------------------------------------------------------------------------------
# link structure (C19)

ENV_STRUCT = re.compile(r"pub struct (\w+Env)<'a> \{\n(.*?)\n\}", re.S)


def env_structs(text):
    out = OrderedDict()
    for m in ENV_STRUCT.finditer(text):
        fields = [re.sub(r"\s+", " ", l.strip()) for l in m.group(2).splitlines() if l.strip()]
        out.setdefault(m.group(1), []).append(fields)
    return out


def link_info(text):
    return {
        "env_structs": {k: v for k, v in env_structs(text).items()},
        "link_names": re.findall(r'#\[link_name = "(\w+)"\]', text),
        "no_mangle": re.findall(r"#\[unsafe\(no_mangle\)\]\s*\npub fn (\w+)\(", text),
        "extern_fns": re.findall(r"safe fn (\w+)\(env: (\w+)\);", text),
        "inline_mods": re.findall(r"^mod (\w+) \{", text, re.M),
    }
