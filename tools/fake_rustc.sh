#!/bin/sh
# A stand-in for rustc used by the build-protocol checks (C12, C13, C19 structural): "compiles" a
# component by writing a library that is a function of the source text only.
#   FAKE_RUSTC_LOG=<file>        append "<component> start|done" lines
#   FAKE_RUSTC_FAIL=<substring>  exit 1 (after clobbering the output) for components whose path contains it
#   FAKE_RUSTC_KILL=<substring>  write the library, then kill the parent (the build) - a crash between
#                                rustc and the component digest
#   FAKE_RUSTC_DELAY_FILE=<file> lines "<substring> <seconds>": sleep before finishing (completion order)
src="$1"
out=""
prev=""
for a in "$@"; do
  if [ "$prev" = "-o" ]; then out="$a"; fi
  prev="$a"
done
[ -n "$FAKE_RUSTC_LOG" ] && echo "$(basename "$src") start" >> "$FAKE_RUSTC_LOG"
if [ -n "$FAKE_RUSTC_DELAY_FILE" ] && [ -f "$FAKE_RUSTC_DELAY_FILE" ]; then
  while read pat secs; do
    case "$src" in *"$pat"*) sleep "$secs";; esac
  done < "$FAKE_RUSTC_DELAY_FILE"
fi
if [ -n "$FAKE_RUSTC_FAIL" ]; then
  case "$src" in *"$FAKE_RUSTC_FAIL"*) echo "garbage" > "$out"; echo "error: fake rustc failure" >&2; exit 1;; esac
fi
{ echo "FAKE-RLIB"; sha256sum < "$src"; } > "$out"
[ -n "$FAKE_RUSTC_LOG" ] && echo "$(basename "$src") done" >> "$FAKE_RUSTC_LOG"
if [ -n "$FAKE_RUSTC_KILL" ]; then
  case "$src" in *"$FAKE_RUSTC_KILL"*) kill -9 $PPID; sleep 1;; esac
fi
exit 0
