"""An independent front end for the eqlog language: tokenizer, parser, signature and *reference
denotation* of rules as stages.  Nothing here is shared with eqlog's own pipeline (flatten.rs etc.):
the stages computed by `denote` are the reference semantics the TLA+ specifications interpret.

A stage is {"prem": [atom...], "concl": atom} with flat atoms over variable names:
  {"kind":"rel","rel":R,"args":[v...]}        tuple of predicate R / graph of function R (result last)
  {"kind":"set","rel":T,"args":[v]}           v ranges over the elements of type T
  {"kind":"eqv","args":[v,w]}                 (premise only) v and w denote the same element
conclusions:
  {"kind":"tuple","rel":R,"args":[v...]}      the tuple holds (for a function: the value of R(args) is the last arg)
  {"kind":"eq","ty":T,"lhs":v,"rhs":w}
  {"kind":"def","func":F,"args":[v...]}       F(args) is defined (non-surjective)
Meaning of a rule (README): for every `then` statement, every match of all `if` statements before
it (and of the facts established by earlier `then` statements of the same rule, which hold by then)
satisfies it."""
import re

KEYWORDS = {"type", "pred", "func", "enum", "model", "rule", "if", "then", "branch", "along", "match", "dom", "cod", "Mor"}
TOKEN = re.compile(r"\s+|//[^\n]*|(?P<id>[A-Za-z][A-Za-z0-9'_]*)|(?P<p>:=|->|=>|[(){};:,=!._@])")


class ParseError(Exception):
    pass


def tokenize(src):
    pos = 0
    out = []
    while pos < len(src):
        m = TOKEN.match(src, pos)
        if not m:
            raise ParseError(f"bad character at {pos}: {src[pos:pos+10]!r}")
        pos = m.end()
        if m.group("id"):
            out.append(m.group("id"))
        elif m.group("p"):
            out.append(m.group("p"))
    return out


def snake(name):
    s = re.sub(r"(?<=[a-z0-9])([A-Z])", r"_\1", name)
    s = re.sub(r"([A-Z]+)([A-Z][a-z])", r"\1_\2", s)
    return s.lower()


class Parser:
    def __init__(self, src):
        self.t = tokenize(src)
        self.i = 0

    def peek(self, k=0):
        return self.t[self.i + k] if self.i + k < len(self.t) else None

    def eat(self, tok=None):
        cur = self.peek()
        if cur is None or (tok is not None and cur != tok):
            raise ParseError(f"expected {tok!r}, got {cur!r} at token {self.i}")
        self.i += 1
        return cur

    # ---- terms: ("var", name) | ("wild",) | ("app", f, [args]) ; member application t.f(args) = app f with t first
    def term(self):
        t = self.atom_term()
        while True:
            if self.peek() == "." and self.peek(2) == "(":
                self.eat(".")
                f = self.eat()
                args = self.arglist()
                t = ("app", f, [t] + args)
            elif self.peek() == "@":
                self.eat("@")
                self.eat("(")
                a = self.term()
                self.eat(")")
                t = ("morapp", t, a)
            else:
                return t

    def atom_term(self):
        tok = self.eat()
        if tok == "_":
            return ("wild",)
        if tok in ("dom", "cod") and self.peek() == "(":
            self.eat("(")
            a = self.term()
            self.eat(")")
            return (tok, a)
        if not re.match(r"[A-Za-z]", tok):
            raise ParseError(f"term expected, got {tok!r}")
        if self.peek() == "(":
            return ("app", tok, self.arglist())
        return ("var", tok)

    def arglist(self):
        self.eat("(")
        args = []
        while self.peek() != ")":
            args.append(self.term())
            if self.peek() == ",":
                self.eat(",")
        self.eat(")")
        return args

    def type_expr(self):
        if self.peek() == "Mor" and self.peek(1) == "(":
            self.eat()
            self.eat("(")
            n = self.eat()
            self.eat(")")
            return ("mor", n)
        # member type expression `t.T` is only supported for variables
        n = self.eat()
        if self.peek() == "." and self.peek(2) != "(":
            self.eat(".")
            m = self.eat()
            return ("member", n, m)
        return ("ty", n)

    # ---- atoms
    def if_atom(self):
        t = self.term()
        nxt = self.peek()
        if nxt == "=":
            self.eat()
            return ("eq", t, self.term())
        if nxt == "!":
            self.eat()
            return ("def", None, t)
        if nxt == ":":
            self.eat()
            return ("vt", t, self.type_expr())
        if t[0] == "app":
            return ("pred", t[1], t[2])
        raise ParseError(f"bad if atom {t}")

    def then_atom(self):
        t = self.term()
        nxt = self.peek()
        if nxt == "=":
            self.eat()
            return ("eq", t, self.term())
        if nxt == ":=":
            self.eat()
            tm = self.term()
            self.eat("!")
            return ("def", t, tm)
        if nxt == "!":
            self.eat()
            return ("def", None, t)
        if t[0] == "app":
            return ("pred", t[1], t[2])
        raise ParseError(f"bad then atom {t}")

    def block(self):
        self.eat("{")
        stmts = []
        while self.peek() != "}":
            stmts.append(self.stmt())
        self.eat("}")
        return stmts

    def stmt(self):
        tok = self.eat()
        if tok == "if":
            a = self.if_atom()
            self.eat(";")
            return ("if", a)
        if tok == "then":
            a = self.then_atom()
            self.eat(";")
            return ("then", a)
        if tok == "branch":
            blocks = [self.block()]
            while self.peek() == "along":
                self.eat()
                blocks.append(self.block())
            return ("branch", blocks)
        if tok == "match":
            t = self.term()
            self.eat("{")
            cases = []
            while self.peek() != "}":
                pat = self.term()
                self.eat("=>")
                cases.append((pat, self.block()))
            self.eat("}")
            return ("match", t, cases)
        raise ParseError(f"statement expected, got {tok!r}")

    def argdecls(self):
        self.eat("(")
        tys = []
        while self.peek() != ")":
            if self.peek(1) == ":":
                self.eat()
                self.eat(":")
            tys.append(self.type_expr())
            if self.peek() == ",":
                self.eat(",")
        self.eat(")")
        return tys

    def decl(self, model=None):
        tok = self.eat()
        if tok == "type":
            n = self.eat()
            self.eat(";")
            return ("type", n)
        if tok == "pred":
            n = self.eat()
            tys = self.argdecls()
            self.eat(";")
            return ("pred", n, tys)
        if tok == "func":
            n = self.eat()
            tys = self.argdecls()
            self.eat("->")
            r = self.type_expr()
            self.eat(";")
            return ("func", n, tys, r)
        if tok == "enum":
            n = self.eat()
            self.eat("{")
            ctors = []
            while self.peek() != "}":
                c = self.eat()
                tys = self.argdecls()
                ctors.append((c, tys))
                if self.peek() == ",":
                    self.eat(",")
            self.eat("}")
            return ("enum", n, ctors)
        if tok == "rule":
            name = None
            if self.peek() != "{":
                name = self.eat()
            return ("rule", name, self.block())
        if tok == "model" and model is None:
            n = self.eat()
            self.eat("{")
            ds = []
            while self.peek() != "}":
                ds.append(self.decl(model=n))
            self.eat("}")
            return ("model", n, ds)
        raise ParseError(f"declaration expected, got {tok!r}")

    def module(self):
        ds = []
        while self.peek() is not None:
            ds.append(self.decl())
        return ds


def parse(src):
    return Parser(src).module()


# ---------------------------------------------------------------------------------------------
# signature

class Sig:
    """types: name -> kind ('normal'|'enum'|'model'|'mor');
    rels: name -> {"cols":[type...], "func":bool, "ctor":enum or None, "member":model or None,
                   "kind": 'pred'|'func'|'ctor'|'dom'|'cod'}  (for functions the result type is the last column)"""

    def __init__(self, decls, theory_name):
        self.theory = theory_name
        self.types = {}
        self.rels = {}
        self.enums = {}
        self.models = {}
        self.rules = []
        self.order = []
        for d in decls:
            self._decl(d, None)

    def _ty(self, te, model):
        if te[0] == "ty":
            return te[1]
        if te[0] == "mor":
            return te[1] + "Mor"
        raise ParseError("member type expressions are outside the supported fragment")

    def _decl(self, d, model):
        k = d[0]
        if k == "type":
            if model:
                raise ParseError("member types are outside the supported fragment")
            self.types[d[1]] = "normal"
        elif k == "pred":
            cols = [self._ty(t, model) for t in d[2]]
            if model:
                cols = [model] + cols
            self.rels[d[1]] = {"cols": cols, "func": False, "ctor": None, "member": model, "kind": "pred"}
            self.order.append(d[1])
        elif k == "func":
            cols = [self._ty(t, model) for t in d[2]] + [self._ty(d[3], model)]
            if model:
                cols = [model] + cols
            self.rels[d[1]] = {"cols": cols, "func": True, "ctor": None, "member": model, "kind": "func"}
            self.order.append(d[1])
        elif k == "enum":
            self.types[d[1]] = "enum"
            self.enums[d[1]] = [c for c, _ in d[2]]
            for c, tys in d[2]:
                cols = [self._ty(t, model) for t in tys] + [d[1]]
                self.rels[c] = {"cols": cols, "func": True, "ctor": d[1], "member": None, "kind": "ctor"}
                self.order.append(c)
        elif k == "model":
            n = d[1]
            self.types[n] = "model"
            self.types[n + "Mor"] = "mor"
            self.models[n] = []
            pre = snake(n) + "_mor_"
            self.rels[pre + "dom"] = {"cols": [n + "Mor", n], "func": True, "ctor": None, "member": None, "kind": "dom", "model": n}
            self.rels[pre + "cod"] = {"cols": [n + "Mor", n], "func": True, "ctor": None, "member": None, "kind": "cod", "model": n}
            self.order += [pre + "dom", pre + "cod"]
            for dd in d[2]:
                if dd[0] == "rule":
                    raise ParseError("rules inside models are outside the supported fragment")
                self._decl(dd, n)
                if dd[0] in ("pred", "func"):
                    self.models[n].append(dd[1])
        elif k == "rule":
            if model:
                raise ParseError("rules inside models are outside the supported fragment")
            self.rules.append((d[1] or f"anonymous_rule_{len(self.rules)}", d[2]))

    def funcs(self):
        return [r for r in self.order if self.rels[r]["func"]]

    def to_json(self):
        return {"theory": self.theory, "types": self.types, "rels": self.rels, "order": self.order,
                "enums": self.enums, "models": self.models}


# ---------------------------------------------------------------------------------------------
# denotation

class _CC:
    """Congruence closure over the terms of one rule (used only to decide which side of a `then`
    equation already exists)."""

    def __init__(self):
        self.parent = {}
        self.terms = []

    def add(self, t):
        if t not in self.parent:
            self.parent[t] = t
            self.terms.append(t)
            if t[0] == "app":
                for a in t[2]:
                    self.add(a)
            self._congr()
        return t

    def find(self, t):
        while self.parent[t] != t:
            self.parent[t] = self.parent[self.parent[t]]
            t = self.parent[t]
        return t

    def union(self, a, b):
        self.add(a)
        self.add(b)
        ra, rb = self.find(a), self.find(b)
        if ra != rb:
            self.parent[ra] = rb
            self._congr()

    def _congr(self):
        changed = True
        while changed:
            changed = False
            apps = [t for t in self.terms if t[0] == "app"]
            for i, s in enumerate(apps):
                for u in apps[i + 1:]:
                    if s[1] == u[1] and len(s[2]) == len(u[2]) and self.find(s) != self.find(u) and \
                            all(self.find(x) == self.find(y) for x, y in zip(s[2], u[2])):
                        self.parent[self.find(s)] = self.find(u)
                        changed = True


def _hashable(t):
    if t[0] == "app":
        return ("app", t[1], tuple(_hashable(a) for a in t[2]))
    if t[0] in ("dom", "cod"):
        return ("app", t[0], (_hashable(t[1]),))
    return tuple(t)


def infer_var_types(sig, body):
    """Types of the variables of one rule (a variable name is assumed to have one type per rule)."""
    tv = {}
    changed = [True]

    def relcols(t):
        if t[0] in ("dom", "cod"):
            models = list(sig.models)
            return sig.rels[snake(models[0]) + "_mor_" + t[0]]["cols"], [t[1]]
        if t[1] not in sig.rels:
            raise ParseError(f"undeclared symbol {t[1]}")
        return sig.rels[t[1]]["cols"], t[2]

    def ty_of(t):
        if t[0] == "var":
            return tv.get(t[1])
        if t[0] in ("app", "dom", "cod"):
            return relcols(t)[0][-1]
        return None

    def constrain(t, ty):
        if t[0] == "var":
            if ty is not None:
                if tv.get(t[1]) not in (None, ty):
                    raise ParseError(f"variable {t[1]} used at types {tv[t[1]]} and {ty}")
                if t[1] not in tv:
                    tv[t[1]] = ty
                    changed[0] = True
        elif t[0] in ("app", "dom", "cod"):
            cols, args = relcols(t)
            for a, c in zip(args, cols):
                constrain(a, c)

    def atom(a):
        if a[0] == "pred":
            if a[1] not in sig.rels:
                raise ParseError(f"undeclared symbol {a[1]}")
            for t, c in zip(a[2], sig.rels[a[1]]["cols"]):
                constrain(t, c)
        elif a[0] == "eq":
            ty = ty_of(a[1]) or ty_of(a[2])
            constrain(a[1], ty)
            constrain(a[2], ty)
        elif a[0] == "def":
            constrain(a[2], None)
            if a[1] is not None:
                constrain(a[1], ty_of(a[2]))
        elif a[0] == "vt":
            ty = a[2]
            constrain(a[1], ty[1] if ty[0] == "ty" else (ty[1] + "Mor" if ty[0] == "mor" else None))

    def walk(stmts):
        for st in stmts:
            if st[0] in ("if", "then"):
                atom(st[1])
            elif st[0] == "branch":
                for b in st[1]:
                    walk(b)
            elif st[0] == "match":
                for pat, b in st[2]:
                    atom(("eq", st[1], pat))
                    walk(b)

    while changed[0]:
        changed[0] = False
        walk(body)
    return tv


class _RuleDenoter:
    def __init__(self, sig, rule_name, var_types=None):
        self.sig = sig
        self.rule = rule_name
        self.stages = []
        self.fresh = 0
        self.var_types = dict(var_types or {})

    def newvar(self, hint="t"):
        self.fresh += 1
        return f"_{hint}{self.fresh}"

    def relname(self, t, ctx):
        """resolve dom/cod and plain applications to relation names"""
        if t[0] in ("dom", "cod"):
            # the model is determined by the argument's type; with one model per theory take it
            models = list(self.sig.models)
            if len(models) != 1:
                raise ParseError("dom/cod need exactly one model in the supported fragment")
            return snake(models[0]) + "_mor_" + t[0], [t[1]]
        return t[1], t[2]

    def flatten(self, t, ctx, prem):
        """returns the variable denoting term t, appending the atoms that define it to prem"""
        if t[0] == "var":
            v = ctx["ren"].get(t[1], t[1])
            ctx["vars"].add(v)
            if v not in self.var_types and t[1] in self.var_types:
                self.var_types[v] = self.var_types[t[1]]
            return v
        if t[0] == "wild":
            return self.newvar("w")
        if t[0] == "morapp":
            raise ParseError("morphism application is outside the supported fragment")
        rel, args = self.relname(t, ctx)
        if rel not in self.sig.rels or not self.sig.rels[rel]["func"]:
            raise ParseError(f"{rel} is not a function")
        key = _hashable(t)
        avs = [self.flatten(a, ctx, prem) for a in args]
        fkey = (rel, tuple(avs))
        if fkey in ctx["fterms"]:
            return ctx["fterms"][fkey]
        v = self.newvar("t")
        ctx["fterms"][fkey] = v
        prem.append({"kind": "rel", "rel": rel, "args": avs + [v]})
        return v

    def copyctx(self, ctx):
        return {"prem": [dict(a) for a in ctx["prem"]], "ren": dict(ctx["ren"]), "fterms": dict(ctx["fterms"]),
                "cc": ctx["cc"], "occ": set(ctx["occ"]), "eqs": list(ctx["eqs"]), "vars": set(ctx["vars"])}

    def note_terms(self, ctx, terms):
        for t in terms:
            self._note(ctx, t)

    def _note(self, ctx, t):
        h = _hashable(t)
        ctx["occ"].add(h)
        if h[0] == "app":
            for a in (t[2] if t[0] == "app" else [t[1]]):
                self._note(ctx, a)

    def exists(self, ctx, t):
        """does term t denote an element that exists given the statements seen so far?"""
        if t[0] == "var":
            return _hashable(t) in ctx["occ"]
        if t[0] == "wild":
            return False
        cc = _CC()
        for o in ctx["occ"]:
            cc.add(o)
        for a, b in ctx["eqs"]:
            cc.union(a, b)
        h = _hashable(t)
        cc.add(h)
        return any(cc.find(o) == cc.find(h) for o in ctx["occ"])

    def stmts(self, stmts, ctx):
        """Statements are denoted along the control-flow graph of the rule (eqlog.eql, `cfg_edge_fork` /
        `cfg_edge_join`): a branch/match statement forks into its blocks and the end of *every* block is
        joined to the statement that follows, so the rest of the rule is denoted once per block, under
        everything that block queried and asserted; variables introduced inside a block are not in scope
        after it."""
        for i, s in enumerate(stmts):
            if s[0] == "if":
                self.if_stmt(s[1], ctx)
            elif s[0] == "then":
                self.then_stmt(s[1], ctx)
            elif s[0] in ("branch", "match"):
                rest = stmts[i + 1:]
                blocks = s[1] if s[0] == "branch" else [b for _, b in s[2]]
                pats = [None] * len(blocks) if s[0] == "branch" else [p for p, _ in s[2]]
                for pat, b in zip(pats, blocks):
                    c = self.copyctx(ctx)
                    if pat is not None:
                        self.if_stmt(("eq", s[1], pat), c)
                    self.stmts(b, c)
                    if rest:
                        self.leave_scope(ctx, c)
                        self.stmts(rest, c)
                return

    def leave_scope(self, outer, c):
        """hide the variables that were introduced inside a block: their atoms stay (they hold along
        this control-flow path), their names become anonymous"""
        def names(occ):
            out = set()

            def go(h):
                if h[0] == "var":
                    out.add(h[1])
                elif h[0] == "app":
                    for a in h[2]:
                        go(a)
            for h in occ:
                go(h)
            return out
        local = names(c["occ"]) - names(outer["occ"])
        sub_src = {}
        for n in sorted(local):
            flat = c["ren"].pop(n, n)
            self.fresh += 1
            hidden = f"_h{self.fresh}_{n}"
            sub_src[n] = hidden
            if flat == n and flat not in outer["vars"]:
                self.rename(c, flat, hidden)
                c["ren"].pop(flat, None)

        def hs(h):
            if h[0] == "var":
                return ("var", sub_src.get(h[1], h[1]))
            if h[0] == "app":
                return ("app", h[1], tuple(hs(a) for a in h[2]))
            return h
        c["occ"] = {hs(h) for h in c["occ"]}
        c["eqs"] = [(hs(a), hs(b)) for a, b in c["eqs"]]

    def if_stmt(self, a, ctx):
        prem = ctx["prem"]
        if a[0] == "pred":
            if a[1] not in self.sig.rels or self.sig.rels[a[1]]["func"]:
                raise ParseError(f"{a[1]} is not a predicate")
            avs = [self.flatten(t, ctx, prem) for t in a[2]]
            prem.append({"kind": "rel", "rel": a[1], "args": avs})
            self.note_terms(ctx, a[2])
        elif a[0] == "eq":
            l, r = a[1], a[2]
            # `v = f(args)`: bind the variable to the application's value directly
            lv = self.flatten(l, ctx, prem)
            rv = self.flatten(r, ctx, prem)
            if lv != rv:
                # substitute: the younger (generated) name is replaced where possible
                if rv.startswith("_") or (not lv.startswith("_") and r[0] == "var"):
                    keep, drop = lv, rv
                else:
                    keep, drop = rv, lv
                self.rename(ctx, drop, keep)
            self.note_terms(ctx, [l, r])
            ctx["eqs"].append((_hashable(l), _hashable(r)))
        elif a[0] == "def":
            self.flatten(a[2], ctx, prem)
            self.note_terms(ctx, [a[2]])
        elif a[0] == "vt":
            v = self.flatten(a[1], ctx, prem)
            ty = a[2]
            if ty[0] != "ty" and ty[0] != "mor":
                raise ParseError("member types are outside the supported fragment")
            tn = ty[1] if ty[0] == "ty" else ty[1] + "Mor"
            prem.append({"kind": "set", "rel": tn, "args": [v]})
            self.note_terms(ctx, [a[1]])

    def rename(self, ctx, drop, keep):
        """identify variable `drop` with `keep` in everything collected so far.  If both already occur
        in premise atoms the identification is a genuine premise equality between two bound variables;
        substituting is still correct (matches are exactly those assigning both the same element)."""
        def sub(v):
            return keep if v == drop else v
        for at in ctx["prem"]:
            at["args"] = [sub(v) for v in at["args"]]
        ctx["prem"][:] = [dict(at) for at in ctx["prem"]]
        ctx["ren"] = {k: sub(v) for k, v in ctx["ren"].items()}
        if not drop.startswith("_"):
            ctx["ren"][drop] = keep
        ctx["fterms"] = {(r, tuple(sub(v) for v in a)): sub(v2) for (r, a), v2 in ctx["fterms"].items()}
        ctx["vars"] = {sub(v) for v in ctx["vars"]}
        if keep not in self.var_types and drop in self.var_types:
            self.var_types[keep] = self.var_types[drop]

    def emit(self, ctx, extra_prem, concl):
        prem = [dict(a) for a in ctx["prem"]] + [dict(a) for a in extra_prem]
        # variables bound by no atom range over their whole type
        bound = {v for a in prem for v in a["args"]}
        cv = set(concl["args"]) if "args" in concl else {concl["lhs"], concl["rhs"]}
        for v in sorted((ctx["vars"] | cv) - bound):
            if v.startswith("_") and v not in cv:
                continue
            ty = self.var_types.get(v)
            if ty is None and "rel" in concl and v in concl["args"]:
                ty = self.sig.rels[concl["rel"]]["cols"][concl["args"].index(v)]
            if ty is None:
                raise ParseError(f"cannot determine the type of {v} in rule {self.rule}")
            at = {"kind": "set", "rel": ty, "args": [v]}
            prem.append(at)
            ctx["prem"].append(dict(at))
        # drop exact duplicates
        seen = []
        for a in prem:
            if a not in seen:
                seen.append(a)
        self.stages.append({"rule": self.rule, "prem": seen, "concl": concl})

    def then_stmt(self, a, ctx):
        extra = []
        if a[0] == "pred":
            avs = [self.flatten(t, ctx, extra) for t in a[2]]
            self.emit(ctx, extra, {"kind": "tuple", "rel": a[1], "args": avs})
            # the fact holds from here on
            ctx["prem"] += extra
            ctx["prem"].append({"kind": "rel", "rel": a[1], "args": avs})
            self.note_terms(ctx, a[2])
        elif a[0] == "def":
            tm = a[2]
            rel, args = self.relname(tm, ctx)
            avs = [self.flatten(t, ctx, extra) for t in args]
            self.emit(ctx, extra, {"kind": "def", "func": rel, "args": avs})
            ctx["prem"] += extra
            v = (a[1][1] if a[1] is not None and a[1][0] == "var" else None)
            fkey = (rel, tuple(avs))
            if fkey in ctx["fterms"]:
                res = ctx["fterms"][fkey]
                if v is not None:
                    ctx["ren"][v] = res
            else:
                res = v if v is not None else self.newvar("d")
                ctx["fterms"][fkey] = res
                ctx["prem"].append({"kind": "rel", "rel": rel, "args": avs + [res]})
            self.note_terms(ctx, [tm] + ([a[1]] if a[1] is not None else []))
            if a[1] is not None:
                ctx["eqs"].append((_hashable(a[1]), _hashable(tm)))
        elif a[0] == "eq":
            l, r = a[1], a[2]
            le, re_ = self.exists(ctx, l), self.exists(ctx, r)
            if not le and not re_:
                raise ParseError("then-equation with two new sides (surjectivity violation)")
            if le and re_:
                lv = self.flatten(l, ctx, extra)
                rv = self.flatten(r, ctx, extra)
                ty = self.type_of(ctx, extra, lv) or self.type_of(ctx, extra, rv)
                self.emit(ctx, extra, {"kind": "eq", "ty": ty, "lhs": lv, "rhs": rv})
                ctx["prem"] += extra
                if lv != rv:
                    self.rename(ctx, rv if rv.startswith("_") else lv, lv if rv.startswith("_") else rv)
            else:
                new, old = (r, l) if le else (l, r)
                if new[0] not in ("app", "dom", "cod"):
                    raise ParseError("variable introduced in a then statement")
                ov = self.flatten(old, ctx, extra)
                rel, args = self.relname(new, ctx)
                avs = [self.flatten(t, ctx, extra) for t in args]
                self.emit(ctx, extra, {"kind": "tuple", "rel": rel, "args": avs + [ov]})
                ctx["prem"] += extra
                ctx["fterms"][(rel, tuple(avs))] = ov
                ctx["prem"].append({"kind": "rel", "rel": rel, "args": avs + [ov]})
            self.note_terms(ctx, [l, r])
            ctx["eqs"].append((_hashable(l), _hashable(r)))

    def type_of(self, ctx, extra, v):
        for at in ctx["prem"] + extra:
            if at["kind"] == "set" and at["args"][0] == v:
                return at["rel"]
            if at["kind"] == "rel":
                for i, x in enumerate(at["args"]):
                    if x == v:
                        return self.sig.rels[at["rel"]]["cols"][i]
        return None


def inheritance_stages(sig):
    """Implicit stages of model declarations (C17): along a morphism f with dom(f)=a, cod(f)=b every
    tuple of a member relation at a holds at b (member relations over global column types)."""
    out = []
    for m, members in sig.models.items():
        pre = snake(m) + "_mor_"
        for r in members:
            n = len(sig.rels[r]["cols"])
            xs = [f"x{i}" for i in range(1, n)]
            out.append({"rule": f"<inherit {r}>", "prem": [
                {"kind": "rel", "rel": pre + "dom", "args": ["f", "a"]},
                {"kind": "rel", "rel": pre + "cod", "args": ["f", "b"]},
                {"kind": "rel", "rel": r, "args": ["a"] + xs}],
                "concl": {"kind": "tuple", "rel": r, "args": ["b"] + xs}})
    return out


def denote(sig):
    stages = []
    for name, body in sig.rules:
        d = _RuleDenoter(sig, name, infer_var_types(sig, body))
        ctx = {"prem": [], "ren": {}, "fterms": {}, "cc": None, "occ": set(), "eqs": [], "vars": set()}
        d.stmts(body, ctx)
        stages += d.stages
    stages += inheritance_stages(sig)
    # variables that occur only in the conclusion of a stage are an error of this tool
    for s in stages:
        pv = {v for a in s["prem"] for v in a["args"]}
        c = s["concl"]
        cv = set(c["args"]) if "args" in c else {c["lhs"], c["rhs"]}
        if not cv <= pv:
            raise ParseError(f"denotation bug: conclusion variable not bound in {s}")
    return stages


def load(path):
    import os
    src = open(path).read()
    name = os.path.splitext(os.path.basename(path))[0]
    sig = Sig(parse(src), name)
    return sig, denote(sig)


if __name__ == "__main__":
    import json
    import sys
    sig, st = load(sys.argv[1])
    print(json.dumps({"sig": sig.to_json(), "stages": st}, indent=1))
