"""Generates the per-theory TLC model (constants of Structure/ApiTrace/EqlogEval) from the
signature and reference stages of tools/eql.py and from the struct fields of the generated module."""
import os
import re
import shutil

import eql
import gen_adapter
import vlib


def s(x):
    return '"%s"' % x


def seq(xs):
    return "<<" + ", ".join(xs) + ">>"


def sset(xs):
    return "{" + ", ".join(xs) + "}"


def fun(pairs):
    pairs = list(pairs)
    if not pairs:
        return "[x \\in {} |-> 0]"
    return "(" + " @@ ".join(f"{k} :> {v}" for k, v in pairs) + ")"


def atom(a):
    return f'[kind |-> {s(a["kind"])}, rel |-> {s(a["rel"])}, args |-> {seq(s(v) for v in a["args"])}]'


def concl(c):
    if c["kind"] == "tuple":
        return f'[kind |-> "tuple", rel |-> {s(c["rel"])}, args |-> {seq(s(v) for v in c["args"])}]'
    if c["kind"] == "eq":
        return f'[kind |-> "eq", rel |-> {s(c["ty"])}, args |-> {seq([s(c["lhs"]), s(c["rhs"])])}]'
    return f'[kind |-> "def", rel |-> {s(c["func"])}, args |-> {seq(s(v) for v in c["args"])}]'


FIELD = re.compile(r"^(?P<rel>.+?)_(?P<age>new|old)(_eqs_(?P<eqs>[0-9_]+?))?_order_(?P<order>[0-9_]*?)_?(?P<scope>own|all)?$")


def physical(sig, module_path):
    text = open(module_path).read()
    by_snake = {}
    for r in sig.order:
        by_snake.setdefault(eql.snake(r), []).append(("rel", r))
    for t in sig.types:
        by_snake.setdefault(eql.snake(t), []).append(("type", t))
    for k, v in by_snake.items():
        if len(v) > 1:
            raise vlib.ToolError(f"theory {sig.theory}: name {k} is ambiguous between {v}; rename in the corpus")
    copies = []
    elidx = []
    for name, ty in gen_adapter.struct_fields(text, gen_adapter.camel(sig.theory)):
        if re.fullmatch(r"PrefixTree\d", ty):
            m = FIELD.match(name)
            if not m or m.group("rel") not in by_snake:
                raise vlib.ToolError(f"cannot classify index field {name}")
            kind, rel = by_snake[m.group("rel")][0]
            order = [int(x) + 1 for x in m.group("order").split("_") if x != ""]
            eqs = [int(x) + 1 for x in m.group("eqs").split("_")] if m.group("eqs") else []
            copies.append({"field": name, "rel": rel, "age": m.group("age"), "order": order, "eqs": eqs,
                           "scope": m.group("scope") or "plain", "isType": kind == "type"})
        elif ty.startswith("BTreeMap<u32"):
            m = re.match(r"^(.+)_element_index$", name)
            found = None
            for r in sig.order:
                for t in set(sig.rels[r]["cols"]):
                    if m and m.group(1) == eql.snake(r) + "_" + eql.snake(t):
                        found = (r, t)
            if not found:
                raise vlib.ToolError(f"cannot classify element index field {name}")
            r, t = found
            elidx.append({"field": name, "rel": r, "cols": [i + 1 for i, c in enumerate(sig.rels[r]["cols"]) if c == t]})
    return copies, elidx


def constants(sig, stages, module_path, fns_text=None):
    copies, elidx = physical(sig, module_path)
    text = open(module_path).read()
    fns = set(re.findall(r"pub fn (\w+)\s*[<(]", text))
    definable = [r for r in sig.order if sig.rels[r]["func"] and "define_" + eql.snake(r) in fns]
    d = {}
    d["MTypes"] = sset(s(t) for t in sig.types)
    d["MArity"] = fun((s(r), seq(s(c) for c in sig.rels[r]["cols"])) for r in sig.order)
    d["MFuncs"] = sset(s(r) for r in sig.order if sig.rels[r]["func"])
    d["MStages"] = seq(f"[prem |-> {seq(atom(a) for a in st['prem'])}, concl |-> {concl(st['concl'])}]" for st in stages)
    d["MEnumTypes"] = sset(s(t) for t in sig.enums)
    d["MCtors"] = fun((s(t), sset(s(c) for c in cs)) for t, cs in sig.enums.items())
    d["MDefinable"] = sset(s(r) for r in definable)
    d["MCopies"] = seq(
        f'[field |-> {s(c["field"])}, rel |-> {s(c["rel"])}, age |-> {s(c["age"])}, order |-> {seq(map(str, c["order"]))}, '
        f'eqs |-> {seq(map(str, c["eqs"]))}, scope |-> {s(c["scope"])}, isType |-> {"TRUE" if c["isType"] else "FALSE"}]' for c in copies)
    d["MElIdx"] = seq(f'[field |-> {s(e["field"])}, rel |-> {s(e["rel"])}, cols |-> {seq(map(str, e["cols"]))}]' for e in elidx)
    d["MHasDefs"] = "TRUE" if any(st["concl"]["kind"] == "def" for st in stages) else "FALSE"
    return d


def write_mc(dirpath, modname, extends, consts, cfg_lines, extra_defs=""):
    """writes <modname>.tla / .cfg into dirpath together with copies of every spec module"""
    for f in os.listdir(vlib.SPEC):
        if f.endswith(".tla"):
            shutil.copyfile(os.path.join(vlib.SPEC, f), os.path.join(dirpath, f))
    body = [f"---- MODULE {modname} ----", f"EXTENDS {extends}, TLC"]
    for k, v in consts.items():
        body.append(f"{k} == {v}")
    body.append(extra_defs)
    body.append("====")
    with open(os.path.join(dirpath, modname + ".tla"), "w") as f:
        f.write("\n".join(body) + "\n")
    with open(os.path.join(dirpath, modname + ".cfg"), "w") as f:
        f.write("\n".join(cfg_lines) + "\n")


API_TRACE_CFG = """SPECIFICATION Spec
CONSTANTS
  Types <- MTypes
  Arity <- MArity
  Funcs <- MFuncs
  Stages <- MStages
  EnumTypes <- MEnumTypes
  Ctors <- MCtors
  Definable <- MDefinable
  Copies <- MCopies
  ElIdx <- MElIdx
  HasDefs <- MHasDefs
  ChaseMaxEls = {maxels}
INVARIANT Report
POSTCONDITION AllConsumed
CHECK_DEADLOCK FALSE"""


def validate_api_trace(theory, sig, stages, module_path, trace_path, name, maxels=9, timeout=3000):
    """runs the ApiTrace monitor of one theory over a recorded trace; returns the RESULT record"""
    d = vlib.workdir(name)
    mod = "MC_" + theory
    write_mc(d, mod, "ApiTrace", constants(sig, stages, module_path), API_TRACE_CFG.format(maxels=maxels).splitlines())
    return vlib.validate_trace(mod, trace_path, name=name + "-tlc", specdir=d, timeout=timeout)


def plan_constant(sig, module_path):
    """the flat rules of the generated module (comment above every rule function, which C16 checks
    against the index fields the function body reads) as the Plan constant of EqlogEval"""
    import extract
    rules = []
    funcs = {r for r in sig.order if sig.rels[r]["func"]}
    for f in extract.rule_functions(open(module_path).read()):
        prem = []
        for a in f["prem"]:
            rel, args = a["rel"], list(a["args"])
            m = re.match(r"^(.*)\[diag=([0-9,]*)\]$", rel)
            if m:
                # a diagonal atom lists one variable per class of equal columns: expand to all columns
                rel = m.group(1)
                labels = [int(x) for x in m.group(2).split(",")]
                first = []
                for l in labels:
                    if l not in first:
                        first.append(l)
                if len(first) != len(args):
                    raise vlib.ToolError(f"diagonal atom {a} of {f['fn']}: {len(args)} variables for pattern {labels}")
                args = [args[first.index(l)] for l in labels]
            if rel in sig.rels:
                kind = "rel"
            elif rel.endswith("Set") and rel[:-3] in sig.types:
                kind, rel = "set", rel[:-3]
            else:
                raise vlib.ToolError(f"cannot classify premise atom {a} of {f['fn']}")
            if kind == "rel" and len(args) != len(sig.rels[rel]["cols"]):
                raise vlib.ToolError(f"arity of premise atom {a} of {f['fn']}")
            prem.append(f'[kind |-> {s(kind)}, rel |-> {s(rel)}, args |-> {seq(s(v) for v in args)}, age |-> {s(a["age"])}]')
        concl = []
        for c in f["concl"]:
            m = re.match(r"^(.*?)\((.*)\)$", c)
            rel, args = m.group(1), [x for x in m.group(2).split(",") if x]
            me = re.match(r"^(\w+)==(\w+)$", rel)
            if me and me.group(1) == me.group(2) and me.group(1) in sig.types:
                kind, rel = "eq", me.group(1)
            elif rel in sig.rels:
                kind = "tuple"
            elif rel.endswith("Def") and rel[:-3] in funcs:
                kind, rel = "def", rel[:-3]
            else:
                raise vlib.ToolError(f"cannot classify conclusion atom {c} of {f['fn']}")
            concl.append(f'[kind |-> {s(kind)}, rel |-> {s(rel)}, args |-> {seq(s(v) for v in args)}]')
        rules.append(f"[prem |-> {seq(prem)}, concl |-> {seq(concl)}]")
    return seq(rules), len(rules)


EVAL_CFG = """SPECIFICATION {spec}
CONSTANTS
  Types <- MTypes
  Arity <- MArity
  Funcs <- MFuncs
  Stages <- MStages
  ChaseMaxEls = {chasemax}
  MaxEls = {maxels}
  MaxId = {maxid}
  MaxAsserts = {maxasserts}
  KeepPending = {keep}
  RuleStages <- MRuleStages
  Members <- MMembers
  DomRel <- MDomRel
  CodRel <- MCodRel
  UsePlan = {useplan}
  Plan <- MPlan
  RecordHist = {record}
{view}
INVARIANTS {invariants}
{properties}
CONSTRAINT Bound
CHECK_DEADLOCK FALSE"""


def eval_model_check(theory, sig, stages, module_path, name, maxels=2, maxid=3, maxasserts=2, keep=True, chasemax=8,
                     liveness=False, workers=8, timeout=3000, allow_violation=False, invariants=None, plan=False, cex=False):
    """TLC on EqlogEval instantiated with one corpus theory (design-level refinement check)."""
    d = vlib.workdir(name)
    mod = "MCEval_" + theory
    cons = constants(sig, stages, module_path)
    cons = {k: v for k, v in cons.items() if k in ("MTypes", "MArity", "MFuncs", "MStages")}
    explicit = [st for st in stages if not st.get("rule", "").startswith("<inherit")]
    cons["MRuleStages"] = seq(f"[prem |-> {seq(atom(a) for a in st['prem'])}, concl |-> {concl(st['concl'])}]" for st in explicit)
    model = next(iter(sig.models), None)
    cons["MMembers"] = sset(s(r) for r in (sig.models[model] if model else []))
    cons["MDomRel"] = s(eql.snake(model) + "_mor_dom") if model else s("")
    cons["MCodRel"] = s(eql.snake(model) + "_mor_cod") if model else s("")
    cons["MPlan"], nplan = plan_constant(sig, module_path) if plan else ("<<>>", 0)
    props = "PROPERTY NoAllocation" + (" Terminates" if liveness else "")
    cfg = EVAL_CFG.format(spec="FairSpec" if liveness else "Spec", chasemax=chasemax, maxels=maxels, maxid=maxid,
                          maxasserts=maxasserts, keep="TRUE" if keep else "FALSE", useplan="TRUE" if plan else "FALSE",
                          record="TRUE" if cex else "FALSE", view="VIEW NoHist" if cex and not liveness else "",
                          invariants=invariants or ("RefinesApiCex SoundAtObsCex RootsOnly TypeSetsExact Disjoint" if cex
                                                    else "RefinesApi SoundAtObs RootsOnly TypeSetsExact Disjoint"), properties=props)
    write_mc(d, mod, "EqlogEval", cons, cfg.splitlines())
    r = vlib.tlc(mod, name=name + "-tlc", workers=workers, specdir=d, timeout=timeout, allow_violation=allow_violation, coverage=True)
    r["plan_rules"] = nplan
    return r
