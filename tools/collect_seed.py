#!/usr/bin/env python3
"""usage: tools/collect_seed.py <Cxx> <mK> <caught-by spec ...>
Copies a confirmed seeded change from /tmp/seed_out/<Cxx>/<mK> into /verif/seeded/<Cxx>-<mK>/ (patch.diff,
demo/, meta.json) and records which checks report it.  meta.json merges the sub-agent's description with
what was run here: confirm.log summary (tools/confirm_seed.sh) and the check results (tools/mutant_run.sh /
tools/try_patch.sh)."""
import json
import os
import re
import shutil
import sys

prop, mk = sys.argv[1], sys.argv[2]
caught = sys.argv[3:]
src = f"/tmp/seed_out/{prop}/{mk}"
dst = f"/verif/seeded/{prop}-{mk}"
shutil.rmtree(dst, ignore_errors=True)
os.makedirs(dst)
shutil.copyfile(os.path.join(src, "patch.diff"), os.path.join(dst, "patch.diff"))
# demonstration without build output
shutil.copytree(os.path.join(src, "demo"), os.path.join(dst, "demo"),
                ignore=shutil.ignore_patterns("target", "*.rlib", "*.rmeta", "*.o", "Cargo.lock"))
meta = {}
try:
    meta = json.load(open(os.path.join(src, "meta.json")))
except Exception as e:
    meta = {"property": prop, "summary": "(sub-agent meta.json unreadable: %s)" % e}
conf = ""
cl = os.path.join(src, "confirm.log")
if os.path.exists(cl):
    lines = [l.strip() for l in open(cl) if re.match(r"^\w+: (tests rc=|CONFIRMED|NOT CONFIRMED)", l)]
    conf = " | ".join(lines)
meta["breaks_property"] = prop
meta["confirmed_here"] = conf
meta["confirmation_procedure"] = ("tools/confirm_seed.sh: scratch copy of /repo mounted at /repo in a private mount namespace; patch applied; "
                                  "cargo test --workspace --no-fail-fast --offline (183 + 1 doc test); demo/run.sh on the unchanged and on the patched tree")
meta["checks_run"] = caught
json.dump(meta, open(os.path.join(dst, "meta.json"), "w"), indent=1)
print(dst, conf)
