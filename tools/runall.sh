#!/bin/sh
# runs the given checks (default: all claimed in MANIFEST.json) and prints one summary line each
cd "$(dirname "$0")/.."
TIER=${TIER:-quick}
if [ $# -gt 0 ]; then LIST="$@"; else LIST=$(python3 -c "import json; print(' '.join(c['property_id'] for c in json.load(open('MANIFEST.json'))['checks']))"); fi
for c in $LIST; do
  s=$(date +%s)
  ./check $c $TIER > work/run_$c.out 2> work/run_$c.err; rc=$?
  e=$(date +%s)
  echo "$c rc=$rc $((e-s))s viol=$(grep -c '^VIOLATION' work/run_$c.out) known=$(grep -c '^KNOWN-FINDING' work/run_$c.out)"
done
