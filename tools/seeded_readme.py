#!/usr/bin/env python3
"""regenerates seeded/README.md from seeded/<id>/meta.json and seeded/results.json"""
import json
import os

root = os.path.join(os.path.dirname(os.path.dirname(os.path.abspath(__file__))), "seeded")
res = json.load(open(os.path.join(root, "results.json")))
rows = []
for d in sorted(os.listdir(root)):
    mp = os.path.join(root, d, "meta.json")
    if not os.path.exists(mp):
        continue
    m = json.load(open(mp))
    r = res.get(d, {})
    ch = m.get("confirmed_here", "")
    conf = "yes" if ": CONFIRMED" in ch else ("tests + check (demo not re-run)" if ch.startswith("tests:") else "NO")
    def cell(x):
        return str(x).replace("|", "/").replace("\n", " ")
    rows.append(f"| {d} | {m.get('breaks_property')} | {cell(m.get('summary', ''))[:260]} | {cell(m.get('needs_to_manifest', ''))[:260]} | {conf} | "
                f"{', '.join(r.get('caught_by', [])) or '**not reported**'} | {cell(r.get('strengthened', ''))} |")
head = open(os.path.join(root, "README.md")).read().split("| id |")[0]
with open(os.path.join(root, "README.md"), "w") as f:
    f.write(head)
    f.write("| id | property | change | needs | confirmed here | reported by (quick tier) | what had to be strengthened |\n|---|---|---|---|---|---|---|\n")
    f.write("\n".join(rows) + "\n")
print(len(rows), "seeded changes")
