#!/bin/sh
# usage: runjobs.sh <jobfile> <parallelism>
cat "$1" | xargs -P "$2" -L 1 sh -c 'n=$0; p=$1; shift; /verif/tools/mutant_run.sh $n /tmp/seed_out/$p/patch.diff "$@" > /tmp/mr_$n.log 2>&1'
