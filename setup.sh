#!/bin/sh
# Builds the verification harness from files on disk only (offline).
set -e
cd "$(dirname "$0")"
mkdir -p work evidence replays
export CARGO_NET_OFFLINE=true
# model-driver includes generated adapters; create them for the whole corpus first
python3 - <<'PY'
import sys
sys.path.insert(0, "tools")
import theories
import vlib
vlib.cargo_build(["rt-driver"])
theories.prepare()
theories.prepare_component_driver()
PY
echo setup done
