// Replay / recording driver for the runtime containers of eqlog-runtime (C08, C14, C18).
//
// usage: rt-driver <wbt|pt|topo|uf> <ops.ndjson> <trace.ndjson>
//
// Every input line is one case (an operation sequence or a graph) produced by TLC from the
// corresponding specification or by tools/gen_ops.py; the output is one ndjson event per executed
// operation carrying the call, its result and the full observable state afterwards.  The trace
// specifications in /verif/spec decide; this program only executes and records.  A panic of the
// code under test is recorded as an event ("panic") and the case is abandoned.

mod pt;
mod topo;
mod uf;
mod wbt;

use std::io::{BufRead, BufReader, BufWriter, Write};

fn main() {
    let args: Vec<String> = std::env::args().collect();
    if args.len() != 4 {
        eprintln!("usage: rt-driver <wbt|pt|topo|uf> <ops.ndjson> <trace.ndjson>");
        std::process::exit(2);
    }
    let input = BufReader::new(std::fs::File::open(&args[2]).expect("open ops"));
    let mut out = BufWriter::new(std::fs::File::create(&args[3]).expect("create trace"));
    std::panic::set_hook(Box::new(|_| {}));
    for line in input.lines() {
        let line = line.unwrap();
        if line.trim().is_empty() {
            continue;
        }
        let case: serde_json::Value = serde_json::from_str(&line).expect("case json");
        let mut buf: Vec<String> = Vec::new();
        let kind = args[1].clone();
        let res = std::panic::catch_unwind(std::panic::AssertUnwindSafe(|| match kind.as_str() {
            "wbt" => wbt::run_case(&case, &mut buf),
            "pt" => pt::run_case(&case, &mut buf),
            "topo" => topo::run_case(&case, &mut buf),
            "uf" => uf::run_case(&case, &mut buf),
            _ => panic!("unknown kind"),
        }));
        for l in &buf {
            writeln!(out, "{}", l).unwrap();
        }
        if let Err(e) = res {
            let msg = if let Some(s) = e.downcast_ref::<String>() {
                s.clone()
            } else if let Some(s) = e.downcast_ref::<&str>() {
                s.to_string()
            } else {
                "panic".to_string()
            };
            writeln!(
                out,
                "{}",
                serde_json::json!({"ev":"panic","id":case["id"],"msg":msg,"after":buf.len()})
            )
            .unwrap();
        }
    }
    out.flush().unwrap();
}
