// eqlog_runtime::Unification driver (C05).  Operations mirror the actions of spec/UnionFind.tla;
// spec/UFTrace.tla validates the recorded events.  `Unification<El>` is instantiated the way
// generated code does it: with a newtype over u32.
use eqlog_runtime::Unification;
use serde_json::{json, Value};

#[derive(Copy, Clone, PartialEq, Eq, PartialOrd, Ord, Debug, Hash)]
pub struct El(pub u32);
impl From<u32> for El {
    fn from(x: u32) -> Self {
        El(x)
    }
}
impl Into<u32> for El {
    fn into(self) -> u32 {
        self.0
    }
}

fn roots(u: &Unification<El>) -> Vec<u32> {
    (0..u.len() as u32).map(|e| u.root_const(El(e)).0).collect()
}
fn classes(u: &Unification<El>) -> Vec<Value> {
    u.classes()
        .iter()
        .map(|(r, ms)| json!([r.0, ms.iter().map(|m| m.0).collect::<Vec<u32>>()]))
        .collect()
}

pub fn run_case(case: &Value, out: &mut Vec<String>) {
    let mut u: Unification<El> = Unification::new();
    let mut c: Unification<El> = Unification::new();
    for op in case["ops"].as_array().unwrap() {
        let name = op["op"].as_str().unwrap();
        let a = op["a"].as_u64().unwrap() as u32;
        let b = op["b"].as_u64().unwrap() as u32;
        let mut ret: i64 = -1;
        let mut again: i64 = -1;
        match name {
            "grow" => u.increase_size_to(a as usize),
            "root" => {
                ret = u.root(El(a)).0 as i64;
                again = u.root(El(ret as u32)).0 as i64;
            }
            "union" => u.union_roots_into(El(a), El(b)),
            "clone" => c = u.clone(),
            "croot" => {
                ret = c.root(El(a)).0 as i64;
                again = c.root(El(ret as u32)).0 as i64;
            }
            "cunion" => c.union_roots_into(El(a), El(b)),
            _ => panic!("unknown op {}", name),
        }
        out.push(
            json!({"ev":"uf","id":case["id"],"op":name,"a":a,"b":b,"ret":ret,"again":again,
                   "len":u.len(),"roots":roots(&u),"classes":classes(&u),
                   "clen":c.len(),"croots":roots(&c),"cclasses":classes(&c)})
            .to_string(),
        );
    }
}
