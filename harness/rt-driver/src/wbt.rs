// WBTreeMap<i64> driver (C14).  Operations mirror the actions of spec/OrdMap.tla.
use eqlog_runtime::wbtree::map::{Entry, WBTreeMap};
use serde_json::{json, Value};

const MODV: i64 = 1009;
pub fn merge(k: u32, l: i64, r: i64) -> i64 {
    (l * 3 + r + k as i64) % MODV
}
pub fn filt(k: u32, l: i64, r: i64) -> Option<i64> {
    if (l + r + k as i64) % 2 == 0 {
        None
    } else {
        Some((l * 5 + r) % MODV)
    }
}

fn state(maps: &Vec<WBTreeMap<i64>>) -> Value {
    Value::Array(
        maps.iter()
            .map(|m| {
                let items: Vec<Value> = m.iter().map(|(k, v)| json!([k, *v])).collect();
                let shape: Value = serde_json::from_str(&m.verif_shape_json()).unwrap();
                json!({"items": items, "len": m.len(), "empty": m.is_empty(), "shape": shape})
            })
            .collect(),
    )
}

pub fn run_case(case: &Value, out: &mut Vec<String>) {
    let nh = case["nh"].as_u64().unwrap() as usize;
    let mut maps: Vec<WBTreeMap<i64>> = (0..nh).map(|_| WBTreeMap::new()).collect();
    out.push(json!({"ev":"reset","id":case["id"],"nh":nh}).to_string());
    for (i, op) in case["ops"].as_array().unwrap().iter().enumerate() {
        let name = op["op"].as_str().unwrap();
        let h = op["h"].as_u64().unwrap() as usize;
        let h2 = op["h2"].as_u64().unwrap() as usize;
        let h3 = op["h3"].as_u64().unwrap() as usize;
        let k = op["k"].as_u64().unwrap() as u32;
        let v = op["v"].as_i64().unwrap();
        let mut cb: Vec<Value> = Vec::new();
        let ret: i64 = match name {
            "insert" => maps[h - 1].insert(k, v).unwrap_or(-1),
            "remove" => maps[h - 1].remove(&k).unwrap_or(-1),
            "get" => {
                let r = maps[h - 1].get(&k).copied();
                assert_eq!(r.is_some(), maps[h - 1].contains_key(&k));
                r.unwrap_or(-1)
            }
            "get_mut" => match maps[h - 1].get_mut(&k) {
                Some(r) => {
                    let old = *r;
                    *r = v;
                    old
                }
                None => -1,
            },
            "entry_or_insert" => *maps[h - 1].entry(k).or_insert(v),
            "entry_or_insert_with" => *maps[h - 1].entry(k).or_insert_with(|| v),
            "entry_toggle" => match maps[h - 1].entry(k) {
                Entry::Occupied(e) => e.remove(),
                Entry::Vacant(e) => *e.insert(v),
            },
            "entry_set" => match maps[h - 1].entry(k) {
                Entry::Occupied(mut e) => {
                    let old = *e.get_mut();
                    *e.get_mut() = v;
                    old
                }
                Entry::Vacant(_) => -1,
            },
            "iter_mut_add" => {
                let mut n = 0;
                for (_k, val) in maps[h - 1].iter_mut() {
                    *val = (*val + v) % MODV;
                    n += 1;
                }
                n
            }
            "iter_mut_key" => {
                // mutable iteration that only touches the entry with key k
                let mut n = 0;
                for (key, val) in maps[h - 1].iter_mut() {
                    if key == k {
                        *val = v;
                        n += 1;
                    }
                }
                n
            }
            "clear" => {
                maps[h - 1].clear();
                0
            }
            "clone" => {
                let c = maps[h2 - 1].clone();
                maps[h - 1] = c;
                0
            }
            "union" => {
                let r = maps[h2 - 1].union(&maps[h3 - 1], |key, l, r| {
                    cb.push(json!([*key, l, r]));
                    merge(*key, l, r)
                });
                maps[h - 1] = r;
                0
            }
            "diff" => {
                let r = maps[h2 - 1].difference(&maps[h3 - 1], |key, l, r| {
                    cb.push(json!([*key, l, r]));
                    filt(*key, l, r)
                });
                maps[h - 1] = r;
                0
            }
            _ => panic!("unknown op {name}"),
        };
        out.push(
            json!({"ev":"op","id":case["id"],"i":i+1,"op":name,"h":h,"h2":h2,"h3":h3,"k":k,"v":v,
                   "ret":ret,"cb":cb,"st":state(&maps)})
            .to_string(),
        );
    }
}
