// morphism_toposort driver (C18).  A case is a graph together with a new/old split of the three
// input tables; spec/Toposort.tla generates the cases and spec/TopoTrace.tla validates the output.
use eqlog_runtime::*;
use serde_json::{json, Value};

pub fn run_case(case: &Value, out: &mut Vec<String>) {
    let mut dom_new = PrefixTree2::new();
    let mut dom_old = PrefixTree2::new();
    let mut cod_new = PrefixTree2::new();
    let mut cod_old = PrefixTree2::new();
    let mut obj_new = PrefixTree1::new();
    let mut obj_old = PrefixTree1::new();
    // objs: [[obj, age]], dom: [[mor, obj, age]], cod: [[mor, obj, age]] with age 1 = new, 0 = old
    for o in case["objs"].as_array().unwrap() {
        let id = o[0].as_u64().unwrap() as u32;
        if o[1].as_u64().unwrap() == 1 { obj_new.insert([id]); } else { obj_old.insert([id]); }
    }
    for d in case["dom"].as_array().unwrap() {
        let (m, o) = (d[0].as_u64().unwrap() as u32, d[1].as_u64().unwrap() as u32);
        if d[2].as_u64().unwrap() == 1 { dom_new.insert([o, m]); } else { dom_old.insert([o, m]); }
    }
    for c in case["cod"].as_array().unwrap() {
        let (m, o) = (c[0].as_u64().unwrap() as u32, c[1].as_u64().unwrap() as u32);
        if c[2].as_u64().unwrap() == 1 { cod_new.insert([m, o]); } else { cod_old.insert([m, o]); }
    }
    let res = morphism_toposort(&dom_new, &dom_old, &cod_new, &cod_old, &obj_old, &obj_new);
    let (err, list): (bool, Vec<Value>) = match res {
        Ok(v) => (false, v.iter().map(|m| json!([m.morph, m.dom, m.cod])).collect()),
        Err(ToposortError::CycleDetected) => (true, vec![]),
    };
    out.push(
        json!({"ev":"topo","id":case["id"],"g":case["g"],"objs":case["objs"],"dom":case["dom"],"cod":case["cod"],
               "err":err,"out":list})
        .to_string(),
    );
}
