// PrefixTree0..9 driver (C08).  Operations mirror the actions of spec/PrefixTree.tla.
use eqlog_runtime::*;
use serde_json::{json, Value};

pub trait PT: Clone {
    fn new() -> Self;
    fn insert(&mut self, t: &[u32]) -> bool;
    fn remove(&mut self, t: &[u32]) -> bool;
    fn contains(&self, t: &[u32]) -> bool;
    fn is_empty(&self) -> bool;
    fn clear(&mut self);
    fn items(&self) -> Vec<Vec<u32>>;
    fn union(&self, o: &Self) -> Self;
    fn difference(&self, o: &Self) -> Self;
    /// None = arity has no such operation; Some(None) = `get` returned None.
    fn get_items(&self, k: u32) -> Option<Option<Vec<Vec<u32>>>>;
    fn restrictions(&self) -> Option<Vec<(u32, Vec<Vec<u32>>)>>;
    fn restrictions_mut_insert(&mut self, rest: &[u32]) -> bool;
    fn insert_restriction_list(&mut self, k: u32, sub: &[Vec<u32>]) -> bool;
    fn insert_restriction_from(&mut self, k: u32, o: &Self, k2: u32) -> bool;
    fn remove_restriction_list(&mut self, k: u32, sub: &[Vec<u32>]) -> bool;
    fn remove_restriction_from(&mut self, k: u32, o: &Self, k2: u32) -> bool;
    fn get_mut_insert(&mut self, k: u32, rest: &[u32]) -> i64;
    fn mapped(&self, maps: &[Option<PrefixTree2>]) -> Self;
    fn shape(&self) -> Value;
}

impl PT for PrefixTree0 {
    fn new() -> Self { PrefixTree0::new() }
    fn insert(&mut self, _t: &[u32]) -> bool { PrefixTree0::insert(self, []) }
    fn remove(&mut self, _t: &[u32]) -> bool { PrefixTree0::remove(self, []) }
    fn contains(&self, _t: &[u32]) -> bool { PrefixTree0::contains(self, []) }
    fn is_empty(&self) -> bool { PrefixTree0::is_empty(self) }
    fn clear(&mut self) { PrefixTree0::clear(self) }
    fn items(&self) -> Vec<Vec<u32>> { self.iter().map(|a| a.to_vec()).collect() }
    fn union(&self, o: &Self) -> Self { PrefixTree0::union(self, o) }
    fn difference(&self, o: &Self) -> Self { PrefixTree0::difference(self, o) }
    fn get_items(&self, _k: u32) -> Option<Option<Vec<Vec<u32>>>> { None }
    fn restrictions(&self) -> Option<Vec<(u32, Vec<Vec<u32>>)>> { None }
    fn restrictions_mut_insert(&mut self, _rest: &[u32]) -> bool { false }
    fn insert_restriction_list(&mut self, _k: u32, _sub: &[Vec<u32>]) -> bool { false }
    fn insert_restriction_from(&mut self, _k: u32, _o: &Self, _k2: u32) -> bool { false }
    fn remove_restriction_list(&mut self, _k: u32, _sub: &[Vec<u32>]) -> bool { false }
    fn remove_restriction_from(&mut self, _k: u32, _o: &Self, _k2: u32) -> bool { false }
    fn get_mut_insert(&mut self, _k: u32, _rest: &[u32]) -> i64 { -2 }
    fn mapped(&self, _maps: &[Option<PrefixTree2>]) -> Self { PrefixTree0::mapped(self) }
    fn shape(&self) -> Value { json!({"nil": true}) }
}

fn sub_from_list<S: PT>(sub: &[Vec<u32>]) -> S {
    let mut s = S::new();
    for t in sub {
        s.insert(t);
    }
    s
}

impl PT for PrefixTree1 {
    fn new() -> Self { PrefixTree1::new() }
    fn insert(&mut self, t: &[u32]) -> bool { PrefixTree1::insert(self, [t[0]]) }
    fn remove(&mut self, t: &[u32]) -> bool { PrefixTree1::remove(self, [t[0]]) }
    fn contains(&self, t: &[u32]) -> bool { PrefixTree1::contains(self, [t[0]]) }
    fn is_empty(&self) -> bool { PrefixTree1::is_empty(self) }
    fn clear(&mut self) { PrefixTree1::clear(self) }
    fn items(&self) -> Vec<Vec<u32>> { self.iter().map(|a| a.to_vec()).collect() }
    fn union(&self, o: &Self) -> Self { PrefixTree1::union(self, o) }
    fn difference(&self, o: &Self) -> Self { PrefixTree1::difference(self, o) }
    fn get_items(&self, k: u32) -> Option<Option<Vec<Vec<u32>>>> {
        Some(self.get(k).map(|s| PT::items(s)))
    }
    fn restrictions(&self) -> Option<Vec<(u32, Vec<Vec<u32>>)>> { None }
    fn restrictions_mut_insert(&mut self, _rest: &[u32]) -> bool { false }
    fn insert_restriction_list(&mut self, k: u32, sub: &[Vec<u32>]) -> bool {
        self.insert_restriction(k, sub_from_list::<PrefixTree0>(sub));
        true
    }
    fn insert_restriction_from(&mut self, k: u32, o: &Self, k2: u32) -> bool {
        let r = o.get(k2).cloned().unwrap_or_else(PrefixTree0::new);
        self.insert_restriction(k, r);
        true
    }
    fn remove_restriction_list(&mut self, k: u32, sub: &[Vec<u32>]) -> bool {
        self.remove_restriction(k, &sub_from_list::<PrefixTree0>(sub));
        true
    }
    fn remove_restriction_from(&mut self, k: u32, o: &Self, k2: u32) -> bool {
        let r = o.get(k2).cloned().unwrap_or_else(PrefixTree0::new);
        self.remove_restriction(k, &r);
        true
    }
    fn get_mut_insert(&mut self, _k: u32, _rest: &[u32]) -> i64 { -2 }
    fn mapped(&self, maps: &[Option<PrefixTree2>]) -> Self {
        PrefixTree1::mapped(self, maps[0].clone())
    }
    fn shape(&self) -> Value { serde_json::from_str(&self.set.verif_shape_json()).unwrap() }
}

macro_rules! impl_pt {
    ($ty:ident, $sub:ident, $n:expr, [$($i:expr),*]) => {
        impl PT for $ty {
            fn new() -> Self { $ty::new() }
            fn insert(&mut self, t: &[u32]) -> bool { $ty::insert(self, <[u32; $n]>::try_from(t).unwrap()) }
            fn remove(&mut self, t: &[u32]) -> bool { $ty::remove(self, <[u32; $n]>::try_from(t).unwrap()) }
            fn contains(&self, t: &[u32]) -> bool { $ty::contains(self, <[u32; $n]>::try_from(t).unwrap()) }
            fn is_empty(&self) -> bool { $ty::is_empty(self) }
            fn clear(&mut self) { $ty::clear(self) }
            fn items(&self) -> Vec<Vec<u32>> { self.iter().map(|a| a.to_vec()).collect() }
            fn union(&self, o: &Self) -> Self { $ty::union(self, o) }
            fn difference(&self, o: &Self) -> Self { $ty::difference(self, o) }
            fn get_items(&self, k: u32) -> Option<Option<Vec<Vec<u32>>>> {
                Some(self.get(k).map(|s| PT::items(s)))
            }
            fn restrictions(&self) -> Option<Vec<(u32, Vec<Vec<u32>>)>> {
                Some(self.iter_restrictions().map(|(k, s)| (k, PT::items(s))).collect())
            }
            fn restrictions_mut_insert(&mut self, rest: &[u32]) -> bool {
                for (_k, s) in self.iter_restrictions_mut() {
                    PT::insert(s, rest);
                }
                true
            }
            fn insert_restriction_list(&mut self, k: u32, sub: &[Vec<u32>]) -> bool {
                self.insert_restriction(k, sub_from_list::<$sub>(sub));
                true
            }
            fn insert_restriction_from(&mut self, k: u32, o: &Self, k2: u32) -> bool {
                let r = o.get(k2).cloned().unwrap_or_else($sub::new);
                self.insert_restriction(k, r);
                true
            }
            fn remove_restriction_list(&mut self, k: u32, sub: &[Vec<u32>]) -> bool {
                self.remove_restriction(k, &sub_from_list::<$sub>(sub));
                true
            }
            fn remove_restriction_from(&mut self, k: u32, o: &Self, k2: u32) -> bool {
                let r = o.get(k2).cloned().unwrap_or_else($sub::new);
                self.remove_restriction(k, &r);
                true
            }
            fn get_mut_insert(&mut self, k: u32, rest: &[u32]) -> i64 {
                match self.get_mut(k) {
                    Some(s) => if PT::insert(s, rest) { 1 } else { 0 },
                    None => -1,
                }
            }
            fn mapped(&self, maps: &[Option<PrefixTree2>]) -> Self {
                $ty::mapped(self, $(maps[$i].clone()),*)
            }
            fn shape(&self) -> Value { serde_json::from_str(&self.map.verif_shape_json()).unwrap() }
        }
    };
}

impl_pt!(PrefixTree2, PrefixTree1, 2, [0, 1]);
impl_pt!(PrefixTree3, PrefixTree2, 3, [0, 1, 2]);
impl_pt!(PrefixTree4, PrefixTree3, 4, [0, 1, 2, 3]);
impl_pt!(PrefixTree5, PrefixTree4, 5, [0, 1, 2, 3, 4]);
impl_pt!(PrefixTree6, PrefixTree5, 6, [0, 1, 2, 3, 4, 5]);
impl_pt!(PrefixTree7, PrefixTree6, 7, [0, 1, 2, 3, 4, 5, 6]);
impl_pt!(PrefixTree8, PrefixTree7, 8, [0, 1, 2, 3, 4, 5, 6, 7]);
impl_pt!(PrefixTree9, PrefixTree8, 9, [0, 1, 2, 3, 4, 5, 6, 7, 8]);

fn tup(v: &Value) -> Vec<u32> {
    v.as_array().map(|a| a.iter().map(|x| x.as_u64().unwrap() as u32).collect()).unwrap_or_default()
}
fn tups(v: &Value) -> Vec<Vec<u32>> {
    v.as_array().map(|a| a.iter().map(tup).collect()).unwrap_or_default()
}

fn state<T: PT>(hs: &Vec<T>) -> Value {
    Value::Array(
        hs.iter()
            .map(|t| json!({"items": t.items(), "empty": t.is_empty(), "shape": t.shape()}))
            .collect(),
    )
}

fn run<T: PT>(case: &Value, out: &mut Vec<String>) {
    let nh = case["nh"].as_u64().unwrap() as usize;
    let n = case["n"].as_u64().unwrap();
    let mut hs: Vec<T> = (0..nh).map(|_| T::new()).collect();
    out.push(json!({"ev":"reset","id":case["id"],"nh":nh,"n":n}).to_string());
    for (i, op) in case["ops"].as_array().unwrap().iter().enumerate() {
        let name = op["op"].as_str().unwrap();
        let h = op["h"].as_u64().unwrap() as usize;
        let h2 = op["h2"].as_u64().unwrap() as usize;
        let h3 = op["h3"].as_u64().unwrap() as usize;
        let k = op["k"].as_u64().unwrap() as u32;
        let k2 = op["k2"].as_u64().unwrap() as u32;
        let t = tup(&op["t"]);
        let sub = tups(&op["sub"]);
        // ret: integer result; rl: list result (get / iter_restrictions)
        let mut ret: i64 = 0;
        let mut rl: Value = json!([]);
        match name {
            "insert" => ret = hs[h - 1].insert(&t) as i64,
            "remove" => ret = hs[h - 1].remove(&t) as i64,
            "contains" => ret = hs[h - 1].contains(&t) as i64,
            "clear" => hs[h - 1].clear(),
            "clone" => {
                let c = hs[h2 - 1].clone();
                hs[h - 1] = c;
            }
            "union" => {
                let r = hs[h2 - 1].union(&hs[h3 - 1]);
                hs[h - 1] = r;
            }
            "diff" => {
                let r = hs[h2 - 1].difference(&hs[h3 - 1]);
                hs[h - 1] = r;
            }
            "get" => match hs[h - 1].get_items(k) {
                None => ret = -2,
                Some(None) => ret = -1,
                Some(Some(items)) => {
                    ret = 1;
                    rl = json!(items);
                }
            },
            "restrictions" => match hs[h - 1].restrictions() {
                None => ret = -2,
                Some(rs) => {
                    ret = rs.len() as i64;
                    rl = Value::Array(rs.into_iter().map(|(k, items)| json!({"k": k, "items": items})).collect());
                }
            },
            "restrictions_mut_insert" => ret = hs[h - 1].restrictions_mut_insert(&t) as i64,
            "insert_restriction" => ret = hs[h - 1].insert_restriction_list(k, &sub) as i64,
            "insert_restriction_from" => {
                let o = hs[h2 - 1].clone();
                ret = hs[h - 1].insert_restriction_from(k, &o, k2) as i64
            }
            "remove_restriction" => ret = hs[h - 1].remove_restriction_list(k, &sub) as i64,
            "remove_restriction_from" => {
                let o = hs[h2 - 1].clone();
                ret = hs[h - 1].remove_restriction_from(k, &o, k2) as i64
            }
            "get_mut_insert" => ret = hs[h - 1].get_mut_insert(k, &t),
            "mapped" => {
                // op.maps: list of n entries {id: bool, pairs: [[from, to]]}
                let maps: Vec<Option<PrefixTree2>> = op["maps"]
                    .as_array()
                    .unwrap()
                    .iter()
                    .map(|m| {
                        if m["id"].as_bool().unwrap() {
                            None
                        } else {
                            let mut p = PrefixTree2::new();
                            for pr in tups(&m["pairs"]) {
                                PrefixTree2::insert(&mut p, [pr[0], pr[1]]);
                            }
                            Some(p)
                        }
                    })
                    .collect();
                let r = hs[h2 - 1].mapped(&maps);
                hs[h - 1] = r;
            }
            _ => panic!("unknown op {name}"),
        }
        out.push(
            json!({"ev":"op","id":case["id"],"i":i+1,"op":name,"h":h,"h2":h2,"h3":h3,"k":k,"k2":k2,
                   "t":t,"sub":sub,"maps":op["maps"],"ret":ret,"rl":rl,"st":state(&hs)})
            .to_string(),
        );
    }
}

pub fn run_case(case: &Value, out: &mut Vec<String>) {
    match case["n"].as_u64().unwrap() {
        0 => run::<PrefixTree0>(case, out),
        1 => run::<PrefixTree1>(case, out),
        2 => run::<PrefixTree2>(case, out),
        3 => run::<PrefixTree3>(case, out),
        4 => run::<PrefixTree4>(case, out),
        5 => run::<PrefixTree5>(case, out),
        6 => run::<PrefixTree6>(case, out),
        7 => run::<PrefixTree7>(case, out),
        8 => run::<PrefixTree8>(case, out),
        9 => run::<PrefixTree9>(case, out),
        _ => panic!("arity"),
    }
}
