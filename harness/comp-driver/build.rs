// Component build of the corpus theories exactly as a user crate does it (eqlog::process_root():
// one rlib per rule, compiled with the real rustc and linked into this crate).
fn main() -> eqlog::Result<()> {
    // re-run whenever the corpus changes (tools/vlib.py passes a digest of /verif/theories)
    println!("cargo:rerun-if-env-changed=VERIF_CORPUS_HASH");
    println!("cargo:rerun-if-changed=src");
    eqlog::process_root()?;
    Ok(())
}
