// Component build of the corpus theories exactly as a user crate does it (eqlog::process_root():
// one rlib per rule, compiled with the real rustc and linked into this crate).
fn main() -> eqlog::Result<()> {
    eqlog::process_root()?;
    Ok(())
}
