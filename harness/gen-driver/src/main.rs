// The generic history driver over *generated* programs (well-formed programs enumerated by TLC from
// Lang.tla, compiled in module mode by the compiler under test).  src/gen is rewritten per run.
#![allow(dead_code)]
mod gen;
include!("../../model-driver/src/driver.rs");
