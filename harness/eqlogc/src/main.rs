// The command line front end of the compiler under test, built inside the harness workspace.
// It is the repository's own main.rs, textually.
include!("/repo/eqlog/src/main.rs");
