// Generic API-history driver, shared by model-driver (module build) and comp-driver (component build).
use serde_json::{json, Map, Value};
use std::cell::{Cell, RefCell};
use std::io::{BufRead, BufReader, BufWriter, Write};


pub struct RelInfo {
    pub name: &'static str,
    pub cols: &'static [&'static str],
    pub func: bool,
}

pub trait Drv: Sized {
    fn new_model() -> Self;
    fn types() -> &'static [&'static str];
    fn enum_types() -> &'static [&'static str];
    fn rels() -> &'static [RelInfo];
    fn new_el(&mut self, ty: &str) -> Option<u32>;
    fn new_enum(&mut self, ty: &str, ctor: &str, args: &[u32]) -> Option<u32>;
    fn insert(&mut self, rel: &str, a: &[u32]) -> bool;
    fn define(&mut self, rel: &str, a: &[u32]) -> Option<u32>;
    fn equate(&mut self, ty: &str, a: u32, b: u32);
    fn holds(&self, rel: &str, a: &[u32]) -> bool;
    fn eval(&self, rel: &str, a: &[u32]) -> Option<u32>;
    fn iter_rel(&self, rel: &str) -> Vec<Vec<u32>>;
    fn iter_ty(&self, ty: &str) -> Vec<u32>;
    fn root(&self, ty: &str, x: u32) -> u32;
    fn are_equal(&self, ty: &str, a: u32, b: u32) -> bool;
    fn cnt(&self, ty: &str) -> u32;
    fn enum_cases(&self, ty: &str, el: u32) -> Vec<Vec<Value>>;
    fn enum_case(&self, ty: &str, el: u32) -> Vec<Value>;
    fn close_until_dyn(&mut self, cond: &dyn Fn(&Self) -> bool) -> bool;
    /// the generated `close()` itself (no condition closure, hence no observation inside the loop)
    fn close_plain(&mut self);
    /// physical state: index copies, element indices, weights, uprooted lists, dirty flag
    fn physical(&self) -> Value;
}

const QMAX: usize = 400;

fn tuples_over(cols: &[&str], cnt: &dyn Fn(&str) -> u32) -> Option<Vec<Vec<u32>>> {
    let mut total: usize = 1;
    for c in cols {
        total = total.saturating_mul(cnt(c) as usize);
        if total > QMAX {
            return None;
        }
    }
    let mut out: Vec<Vec<u32>> = vec![vec![]];
    for c in cols {
        let n = cnt(c);
        let mut next = Vec::new();
        for t in &out {
            for i in 0..n {
                let mut u = t.clone();
                u.push(i);
                next.push(u);
            }
        }
        out = next;
    }
    Some(out)
}

pub fn dump<M: Drv>(m: &M, with_cases: bool) -> Value {
    let mut cnt = Map::new();
    let mut rep = Map::new();
    let mut it = Map::new();
    let mut eqm = Map::new();
    for ty in M::types() {
        let n = m.cnt(ty);
        cnt.insert(ty.to_string(), json!(n));
        rep.insert(ty.to_string(), json!((0..n).map(|i| m.root(ty, i)).collect::<Vec<u32>>()));
        it.insert(ty.to_string(), json!(m.iter_ty(ty)));
        // are_equal as a matrix row list: pairs (a, b) with a < b reported equal
        let mut pairs = Vec::new();
        if n <= 12 {
            for a in 0..n {
                for b in (a + 1)..n {
                    if m.are_equal(ty, a, b) {
                        pairs.push(vec![a, b]);
                    }
                }
            }
        }
        eqm.insert(ty.to_string(), json!(pairs));
    }
    let mut tup = Map::new();
    let mut q = Map::new();
    let mut qfull = Map::new();
    for r in M::rels() {
        tup.insert(r.name.to_string(), json!(m.iter_rel(r.name)));
        let arg_cols = if r.func { &r.cols[..r.cols.len() - 1] } else { r.cols };
        match tuples_over(arg_cols, &|t| m.cnt(t)) {
            None => {
                q.insert(r.name.to_string(), json!([]));
                qfull.insert(r.name.to_string(), json!(false));
            }
            Some(ts) => {
                let mut rows = Vec::new();
                for t in ts {
                    if r.func {
                        if let Some(v) = m.eval(r.name, &t) {
                            let mut row = t.clone();
                            row.push(v);
                            rows.push(row);
                        }
                    } else if m.holds(r.name, &t) {
                        rows.push(t);
                    }
                }
                q.insert(r.name.to_string(), json!(rows));
                qfull.insert(r.name.to_string(), json!(true));
            }
        }
    }
    let mut cases = Map::new();
    let mut case1 = Map::new();
    for ty in M::enum_types() {
        let mut all = Vec::new();
        let mut one = Vec::new();
        if with_cases {
            // every element id, not only the representatives: a handle obtained before a merge is
            // an element too (C15: `_case(el)` never panics and yields a case equal to el)
            let n = m.cnt(ty);
            for el in 0..n {
                for c in m.enum_cases(ty, el) {
                    all.push(json!({"el": el, "ctor": c[0], "args": c[1..]}));
                }
                let c = m.enum_case(ty, el);
                one.push(json!({"el": el, "ctor": c[0], "args": c[1..]}));
            }
        }
        cases.insert(ty.to_string(), Value::Array(all));
        case1.insert(ty.to_string(), Value::Array(one));
    }
    json!({"cnt": cnt, "rep": rep, "it": it, "eq": eqm, "tup": tup, "q": q, "qfull": qfull,
           "cases": cases, "case1": case1, "cased": with_cases, "phys": m.physical()})
}

fn u32s(v: &Value) -> Vec<u32> {
    v.as_array().map(|a| a.iter().map(|x| x.as_u64().unwrap() as u32).collect()).unwrap_or_default()
}

fn eval_cond<M: Drv>(m: &M, hd: &Handles, c: &Value) -> bool {
    match c["kind"].as_str().unwrap() {
        "holds" => m.holds(c["rel"].as_str().unwrap(), &hd.args::<M>(c["rel"].as_str().unwrap(), &u32s(&c["args"]), false)),
        "defined" => m.eval(c["rel"].as_str().unwrap(), &hd.args::<M>(c["rel"].as_str().unwrap(), &u32s(&c["args"]), true)).is_some(),
        "equal" => { let ty = c["ty"].as_str().unwrap();
            m.are_equal(ty, hd.get(ty, c["a"].as_u64().unwrap() as u32), hd.get(ty, c["b"].as_u64().unwrap() as u32)) }
        "count_ge" => m.iter_ty(c["ty"].as_str().unwrap()).len() as u64 >= c["n"].as_u64().unwrap(),
        k => panic!("unknown condition kind {k}"),
    }
}

const MAX_OBS: usize = 150;
/// the bound on condition evaluations of one close (MODEL_DRIVER_MAX_OBS overrides the default: generated
/// programs, whose chase need not terminate, are run with a small one)
fn max_obs() -> usize {
    std::env::var("MODEL_DRIVER_MAX_OBS").ok().and_then(|v| v.parse().ok()).unwrap_or(MAX_OBS)
}

/// History steps name elements by *handle*: the k-th element of that type the caller obtained from
/// new_ / new_enum / define_ calls.  Events carry the real ids.
struct Handles(std::collections::BTreeMap<String, Vec<u32>>);
impl Handles {
    fn get(&self, ty: &str, h: u32) -> u32 {
        self.0.get(ty).and_then(|v| v.get(h as usize)).copied().unwrap_or_else(|| panic!("driver: no handle {h} of type {ty}"))
    }
    fn push(&mut self, ty: &str, id: u32) {
        self.0.entry(ty.to_string()).or_default().push(id);
    }
    fn args<M: Drv>(&self, rel: &str, hs: &[u32], func_args_only: bool) -> Vec<u32> {
        let info = M::rels().iter().find(|r| r.name == rel).unwrap_or_else(|| panic!("driver: no relation {rel}"));
        let _ = func_args_only;
        hs.iter().enumerate().map(|(i, h)| self.get(info.cols[i], *h)).collect()
    }
    fn res_type<M: Drv>(rel: &str) -> &'static str {
        let info = M::rels().iter().find(|r| r.name == rel).unwrap();
        info.cols[info.cols.len() - 1]
    }
}

pub fn run_history<M: Drv>(h: &Value, out: &RefCell<Vec<String>>) {
    let id = &h["id"];
    let fam = h.get("fam").cloned().unwrap_or(json!(-1));
    let mut m = M::new_model();
    let mut hd = Handles(Default::default());
    out.borrow_mut().push(json!({"ev":"reset","id":id,"fam":fam,"theory":h["theory"],"st":dump(&m, false)}).to_string());
    for s in h["steps"].as_array().unwrap() {
        let op = s["op"].as_str().unwrap();
        match op {
            "new" => {
                let ty = s["ty"].as_str().unwrap();
                let r = m.new_el(ty).expect("no new_ function for this type");
                hd.push(ty, r);
                out.borrow_mut().push(json!({"ev":"new","id":id,"ty":ty,"ret":r,"st":dump(&m, false)}).to_string());
            }
            "new_enum" => {
                let ty = s["ty"].as_str().unwrap();
                let ctor = s["ctor"].as_str().unwrap();
                let args = hd.args::<M>(ctor, &u32s(&s["args"]), true);
                let r = m.new_enum(ty, ctor, &args).expect("no such enum constructor");
                hd.push(ty, r);
                out.borrow_mut().push(json!({"ev":"new_enum","id":id,"ty":ty,"ctor":ctor,"args":args,"ret":r,"st":dump(&m, true)}).to_string());
            }
            "insert" => {
                let rel = s["rel"].as_str().unwrap();
                let args = hd.args::<M>(rel, &u32s(&s["args"]), false);
                assert!(m.insert(rel, &args), "no insert_ function");
                out.borrow_mut().push(json!({"ev":"insert","id":id,"rel":rel,"args":args,"st":dump(&m, false)}).to_string());
            }
            "define" => {
                let rel = s["rel"].as_str().unwrap();
                let args = hd.args::<M>(rel, &u32s(&s["args"]), true);
                let r = m.define(rel, &args).expect("no define_ function");
                hd.push(Handles::res_type::<M>(rel), r);
                out.borrow_mut().push(json!({"ev":"define","id":id,"rel":rel,"args":args,"ret":r,"st":dump(&m, false)}).to_string());
            }
            "equate" => {
                let ty = s["ty"].as_str().unwrap();
                let (a, b) = (hd.get(ty, s["a"].as_u64().unwrap() as u32), hd.get(ty, s["b"].as_u64().unwrap() as u32));
                m.equate(ty, a, b);
                out.borrow_mut().push(json!({"ev":"equate","id":id,"ty":ty,"a":a,"b":b,"st":dump(&m, false)}).to_string());
            }
            "close" | "close_until" => {
                let stop: i64 = if op == "close" { -1 } else { s["stop"].as_i64().unwrap_or(-1) };
                let cond = if op == "close_until" && !s["cond"].is_null() { Some(s["cond"].clone()) } else { None };
                let tag = s.get("tag").and_then(|t| t.as_str()).unwrap_or("").to_string();
                let raw = op == "close" && s.get("raw").and_then(|t| t.as_bool()).unwrap_or(false);
                if raw {
                    // the public close() as a caller uses it; only its result can be observed
                    out.borrow_mut().push(json!({"ev":"close_begin","id":id,"until":false,"stop":-1,"cond":{"kind":"none"}}).to_string());
                    let t0 = std::time::Instant::now();
                    m.close_plain();
                    let ms = t0.elapsed().as_millis() as u64;
                    out.borrow_mut().push(json!({"ev":"close_ret","id":id,"fam":fam,"tag":tag,"ret":false,"nobs":0,"ms":ms,"raw":true,"st":dump(&m, true)}).to_string());
                    continue;
                }
                out.borrow_mut().push(json!({"ev":"close_begin","id":id,"until":op == "close_until","stop":stop,
                    "cond": cond.clone().unwrap_or(json!({"kind":"none"}))}).to_string());
                let k = Cell::new(0usize);
                let over = Cell::new(false);
                let t0 = std::time::Instant::now();
                let ret = m.close_until_dyn(&|st: &M| {
                    let i = k.get();
                    k.set(i + 1);
                    let mut c = match &cond {
                        Some(c) => eval_cond(st, &hd, c),
                        None => stop >= 0 && i as i64 == stop,
                    };
                    if i >= max_obs() {
                        over.set(true);
                        c = true;
                    }
                    out.borrow_mut().push(json!({"ev":"obs","id":id,"k":i,"cond":c,"st":dump(st, false)}).to_string());
                    c
                });
                let ms = t0.elapsed().as_millis() as u64;
                if over.get() {
                    out.borrow_mut().push(json!({"ev":"budget","id":id,"obs":k.get()}).to_string());
                    return;
                }
                out.borrow_mut().push(json!({"ev":"close_ret","id":id,"fam":fam,"tag":tag,"ret":ret,"nobs":k.get(),"ms":ms,"raw":false,"st":dump(&m, !ret)}).to_string());
            }
            _ => panic!("unknown step {op}"),
        }
    }
}

fn main() {
    let args: Vec<String> = std::env::args().collect();
    if args.len() != 3 {
        eprintln!("usage: model-driver <histories.ndjson> <trace.ndjson>");
        std::process::exit(2);
    }
    // C20: shift heap addresses between runs of the same histories
    if let Ok(n) = std::env::var("MODEL_DRIVER_PREALLOC") {
        let n: usize = n.parse().unwrap_or(0);
        let mut junk: Vec<Vec<u8>> = Vec::new();
        for i in 0..n {
            junk.push(vec![i as u8; 1 + (i * 37) % 4096]);
        }
        std::mem::forget(junk);
    }
    let input = BufReader::new(std::fs::File::open(&args[1]).expect("open histories"));
    let mut outf = BufWriter::new(std::fs::File::create(&args[2]).expect("create trace"));
    std::panic::set_hook(Box::new(|_| {}));
    for line in input.lines() {
        let line = line.unwrap();
        if line.trim().is_empty() {
            continue;
        }
        let h: Value = serde_json::from_str(&line).expect("history json");
        let buf: RefCell<Vec<String>> = RefCell::new(Vec::new());
        let res = std::panic::catch_unwind(std::panic::AssertUnwindSafe(|| {
            gen::run(h["theory"].as_str().unwrap(), &h, &buf);
        }));
        for l in buf.borrow().iter() {
            writeln!(outf, "{}", l).unwrap();
        }
        if let Err(e) = res {
            let msg = if let Some(s) = e.downcast_ref::<String>() {
                s.clone()
            } else if let Some(s) = e.downcast_ref::<&str>() {
                s.to_string()
            } else {
                "panic".to_string()
            };
            writeln!(outf, "{}", json!({"ev":"panic","id":h["id"],"msg":msg})).unwrap();
        }
    }
    outf.flush().unwrap();
}
