SPECIFICATION Spec
CONSTANTS
  Versions <- MVersions
  Comps <- MComps
  HasComp <- MHasComp
  Comp <- MComp
  Mod <- MMod
  CompOrder <- MCompOrder
  ComponentMode = FALSE
  FixCompDigest = TRUE
  CleanStale = TRUE
  Workers = 2
  Sequential = FALSE
  MaxSteps = 6
INVARIANTS Fresh Deterministic
PROPERTY NoRewrite
VIEW view
CHECK_DEADLOCK FALSE
