SPECIFICATION Spec
CONSTANT Prop = "C19"
INVARIANT Report
POSTCONDITION AllConsumed
CHECK_DEADLOCK FALSE
