----------------------------- MODULE OrdMapTrace -----------------------------
(***************************************************************************)
(* Trace validation for C14: replays an ndjson trace recorded from the     *)
(* real WBTreeMap (harness/rt-driver, `wbt`) through the contract of       *)
(* OrdMapOps and the balance invariant of WBTreeOps.  The spec is a        *)
(* monitor: it never blocks; every disagreement is recorded in `viol` as   *)
(* [prop, line, id, what] and the monitor state is re-synchronised to the  *)
(* observed one.  The expected *shape* of every tree is also computed with *)
(* the transcribed algorithms of WBTreeOps; a shape mismatch alone is      *)
(* model drift (counted, never a violation).                               *)
(***************************************************************************)
EXTENDS OrdMapOps, WBTreeOps, Json, IOUtils
Rec == ndJsonDeserialize(IOEnv.TRACE)
VARIABLES l, ms, sh, viol, drift
vars == <<l, ms, sh, viol, drift>>
ToSet(s) == {s[i] : i \in DOMAIN s}

ItemsMap(items) == [k \in {items[i][1] : i \in DOMAIN items} |-> (CHOOSE i \in DOMAIN items : items[i][1] = k)]
ObsMap(items) == LET im == ItemsMap(items) IN [k \in DOMAIN im |-> items[im[k]][2]]
StrictlySorted(items) == \A i \in 1..(Len(items) - 1) : items[i][1] < items[i+1][1]

V(e, what) == [prop |-> "C14", line |-> l, id |-> e.id, what |-> what]

\* expected shape of the destination according to the transcribed algorithms
ExpShape(e) ==
  LET t == sh[e.h] m == ms[e.h] IN
  CASE e.op = "insert" -> Ins(t, e.k)
    [] e.op = "remove" -> Remove(t, e.k)
    [] e.op \in {"entry_or_insert", "entry_or_insert_with"} -> Ins(t, e.k)
    [] e.op = "entry_toggle" -> IF Has(t, e.k) THEN Rem(t, e.k) ELSE Ins(t, e.k)
    [] e.op = "clear" -> Nil
    [] e.op = "clone" -> sh[e.h2]
    [] e.op = "union" -> Union(sh[e.h2], sh[e.h3])
    [] e.op = "diff" -> DiffF(sh[e.h2], sh[e.h3],
                              {k \in DOMAIN ms[e.h2] \cap DOMAIN ms[e.h3] : Filt(k, ms[e.h2][k], ms[e.h3][k]) = None})
    [] OTHER -> t

CheckOp(e) ==
  LET o == [op |-> e.op, h |-> e.h, h2 |-> e.h2, h3 |-> e.h3, k |-> e.k, v |-> e.v]
      exp == Apply(ms, o)
      H == DOMAIN ms
      bad(h) == LET s == e.st[h] IN
         (IF StrictlySorted(s.items) THEN {} ELSE {"iteration not strictly ascending"})
         \cup (IF ObsMap(s.items) = exp[h] THEN {} ELSE {IF h = e.h THEN "contents differ from the reference map" ELSE "operation visible through another handle"})
         \cup (IF s.len = Len(s.items) /\ s.empty = (Len(s.items) = 0) THEN {} ELSE {"len/is_empty wrong"})
         \cup (IF Ok(s.shape) THEN {} ELSE {"size or weight-balance invariant broken"})
         \cup (IF HeightOk(s.shape) THEN {} ELSE {"height not logarithmic"})
         \cup (IF InOrder(s.shape) = [i \in DOMAIN s.items |-> s.items[i][1]] THEN {} ELSE {"tree shape disagrees with iteration"})
  IN (IF e.ret = Result(ms, o) THEN {} ELSE {"wrong return value"})
     \cup (IF Len(e.cb) = Cardinality(ToSet(e.cb)) /\ ToSet(e.cb) = Callbacks(ms, o) THEN {} ELSE {"callback invocations wrong (operands, order of operands, or multiplicity)"})
     \cup UNION {bad(h) : h \in H}

Init == l = 1 /\ ms = <<>> /\ sh = <<>> /\ viol = {} /\ drift = 0
Step ==
  /\ l <= Len(Rec) /\ l' = l + 1
  /\ LET e == Rec[l] IN
     CASE e.ev = "reset" -> /\ ms' = [h \in 1..e.nh |-> EmptyMap] /\ sh' = [h \in 1..e.nh |-> Nil]
                            /\ UNCHANGED <<viol, drift>>
       [] e.ev = "panic" -> /\ viol' = viol \cup {V(e, "panic: " \o e.msg)} /\ UNCHANGED <<ms, sh, drift>>
       [] e.ev = "op" ->
            LET bad == CheckOp(e) IN
            /\ viol' = IF Cardinality(viol) < 10 THEN viol \cup {V(e, w) : w \in bad} ELSE viol
            /\ drift' = drift + (IF e.st[e.h].shape = ExpShape(e) THEN 0 ELSE 1)
            /\ ms' = [h \in DOMAIN ms |-> ObsMap(e.st[h].items)]
            /\ sh' = [h \in DOMAIN sh |-> e.st[h].shape]
Spec == Init /\ [][Step]_vars
Report == (l = Len(Rec) + 1) => PrintT(<<"RESULT", ToJson([viol |-> viol, drift |-> drift, events |-> Len(Rec)])>>)
AllConsumed == TLCGet("stats").diameter = Len(Rec) + 1 \/ PrintT(<<"UNMATCHED", TLCGet("stats").diameter>>)
=============================================================================
