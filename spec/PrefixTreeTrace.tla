--------------------------- MODULE PrefixTreeTrace ---------------------------
(***************************************************************************)
(* Trace validation for C08: replays an ndjson trace recorded from the     *)
(* real PrefixTree0..9 (harness/rt-driver, `pt`) through PrefixTreeOps.    *)
(* Monitor style: disagreements are collected in `viol`, the state is      *)
(* re-synchronised to the observed one.  Also evaluated at every step, on  *)
(* every live handle: iteration strictly lexicographically sorted,         *)
(* is_empty() <=> no tuple, the top-level ordered map balanced (WBTreeOps) *)
(* and consistent with the first column.                                   *)
(***************************************************************************)
EXTENDS PrefixTreeOps, WBTreeOps, Json, IOUtils
Rec == ndJsonDeserialize(IOEnv.TRACE)
VARIABLES l, n, ss, viol
vars == <<l, n, ss, viol>>
V(e, what) == [prop |-> "C08", line |-> l, id |-> e.id, what |-> what]

FirstsSeq(items) == \* distinct first columns in iteration order
  LET RECURSIVE F(_, _) F(i, acc) == IF i > Len(items) THEN acc
         ELSE F(i + 1, IF acc # <<>> /\ acc[Len(acc)] = items[i][1] THEN acc ELSE Append(acc, items[i][1]))
  IN F(1, <<>>)

CheckOp(e) ==
  LET o == [op |-> e.op, h |-> e.h, h2 |-> e.h2, h3 |-> e.h3, k |-> e.k, k2 |-> e.k2, t |-> e.t, sub |-> e.sub, maps |-> e.maps]
      exp == Apply(n, ss, o)
      bad(h) == LET s == e.st[h] IN
         (IF SortedStrict(s.items) THEN {} ELSE {"iteration not lexicographically sorted / has duplicates"})
         \cup (IF ToSet(s.items) = exp[h] THEN {} ELSE {IF h = e.h THEN "contents differ from the reference set" ELSE "operation visible through another handle (clone not independent)"})
         \cup (IF s.empty = (s.items = <<>>) THEN {} ELSE {"is_empty() disagrees with the tuples contained"})
         \cup (IF n = 0 \/ (Ok(s.shape) /\ HeightOk(s.shape)) THEN {} ELSE {"top-level map unbalanced"})
         \cup (IF n = 0 \/ InOrder(s.shape) = FirstsSeq(s.items) THEN {} ELSE {"a first-column key is stored with no tuple under it"})
      rl == e.rl
      listBad ==
         CASE e.op = "get" /\ n > 0 /\ e.ret = 1 ->
                (IF SortedStrict(rl) /\ ToSet(rl) = ResultSet(n, ss, o) THEN {} ELSE {"prefix lookup returns the wrong tuples"})
           [] e.op = "restrictions" /\ n >= 2 ->
                (IF /\ \A i \in 1..(Len(rl) - 1) : rl[i].k < rl[i+1].k
                    /\ \A i \in DOMAIN rl : SortedStrict(rl[i].items)
                    /\ {[k |-> rl[i].k, items |-> ToSet(rl[i].items)] : i \in DOMAIN rl} = ResultSet(n, ss, o)
                 THEN {} ELSE {"prefix iteration returns the wrong groups"})
           [] OTHER -> {}
  IN (IF e.ret = Result(n, ss, o) THEN {} ELSE {"wrong return value of " \o e.op})
     \cup listBad \cup UNION {bad(h) : h \in DOMAIN ss}

Init == l = 1 /\ n = 0 /\ ss = <<>> /\ viol = {}
Step ==
  /\ l <= Len(Rec) /\ l' = l + 1
  /\ LET e == Rec[l] IN
     CASE e.ev = "reset" -> n' = e.n /\ ss' = [h \in 1..e.nh |-> {}] /\ UNCHANGED viol
       [] e.ev = "panic" -> viol' = viol \cup {V(e, "panic: " \o e.msg)} /\ UNCHANGED <<n, ss>>
       [] e.ev = "op" ->
            /\ viol' = IF Cardinality(viol) < 12 THEN viol \cup {V(e, w) : w \in CheckOp(e)} ELSE viol
            /\ ss' = [h \in DOMAIN ss |-> ToSet(e.st[h].items)]
            /\ n' = n
Spec == Init /\ [][Step]_vars
Report == (l = Len(Rec) + 1) => PrintT(<<"RESULT", ToJson([viol |-> viol, drift |-> 0, events |-> Len(Rec)])>>)
AllConsumed == TLCGet("stats").diameter = Len(Rec) + 1 \/ PrintT(<<"UNMATCHED", TLCGet("stats").diameter>>)
=============================================================================
