------------------------------ MODULE EqlogEval ------------------------------
(***************************************************************************)
(* The evaluation algorithm of a generated eqlog model, shaped like the    *)
(* code that rust_gen emits (display_close_until_fn and the functions it   *)
(* calls), for an arbitrary theory given by the constants of Structure:    *)
(*                                                                         *)
(*   per relation a NEW and an OLD set of rows, per type a NEW and an OLD  *)
(*   set of root ids, a union-find (rep), the list of uprooted ids, the    *)
(*   conclusions collected but not yet applied (pend) and the dirty flag   *)
(*   of rules with an empty premise;                                       *)
(*                                                                         *)
(*   close_until = canonicalize; observe; loop { run every sub-rule of the *)
(*   semi-naive plan (atom i NEW, atoms before it ALL, atoms after it      *)
(*   OLD); move new to old; apply equalities; canonicalize; apply tuples;  *)
(*   observe; if not dirty: apply pending definitions; if still not dirty: *)
(*   return false }.                                                       *)
(*                                                                         *)
(* The caller's calls are actions too, so TLC explores every history of    *)
(* the scope, including every early return of close_until.  The ghost      *)
(* variable `ref` is the API-level presentation (as in ApiTrace); the      *)
(* properties say that the algorithm refines the contract: a `false`       *)
(* return is exactly the reference chase (C01, C02, C03, C07), every       *)
(* observation point is sound (C07) and canonical (C04), a close of a      *)
(* theory without definitions allocates nothing and terminates (C06).      *)
(* KeepPending = FALSE is the algorithm as it was before the repair of     *)
(* finding F4 (pending definitions local to one call).                     *)
(***************************************************************************)
EXTENDS Structure, Json
CONSTANTS MaxEls,       \* caller-created ids per type
          MaxId,        \* ids per type overall (bounds the definitions explored)
          MaxAsserts,   \* bound on insert/equate calls per behaviour
          KeepPending,  \* TRUE: the delta survives an early return (repaired design)
          RuleStages,   \* the stages the rule functions evaluate: Stages without the implicit inheritance stages
          Members,      \* member relations (declared inside a model): first column is the model object
          DomRel, CodRel, \* the dom / cod function graphs of the model's morphisms ("" when there is no model)
          RecordHist,   \* TRUE: keep the call history in `hist`
          UsePlan,      \* TRUE: the rule functions are the flat rules EXTRACTED from the generated module (Plan),
                        \* FALSE: the ideal semi-naive plan over RuleStages
          Plan          \* sequence of [prem |-> seq of [kind, rel, args, age], concl |-> seq of [kind, rel, args]]:
                        \* one entry per generated rule function, ages as emitted (binding (C))

VARIABLES cnt, rep, tnew, told, new, old, upr, pend, pc, ejd, ref, ch, gens, lastRet, nops,
          hist          \* the caller's calls so far (recorded only when RecordHist; hidden from TLC's state
                        \* identity by VIEW NoHist): lets a counterexample be replayed on the generated code
vars == <<cnt, rep, tnew, told, new, old, upr, pend, pc, ejd, ref, ch, gens, lastRet, nops, hist>>
NoHist == <<cnt, rep, tnew, told, new, old, upr, pend, pc, ejd, ref, ch, gens, lastRet, nops>>
Call(op, ty, rel, args, a, b, stop, id) == [op |-> op, ty |-> ty, rel |-> rel, args |-> args, a |-> a, b |-> b, stop |-> stop, id |-> id]
Rec(c) == IF RecordHist THEN [hist EXCEPT !.ops = Append(@, c)] ELSE hist

EmptyPend == [tuples |-> {}, eqs |-> {}, defs |-> {}]
Ids(T) == 0..(cnt[T] - 1)
Canon(r, t) == [i \in DOMAIN t |-> rep[Arity[r][i]][t[i]]]
TuplesOver(r) == { t \in [1..Len(Arity[r]) -> 0..(MaxEls - 1)] : \A i \in DOMAIN t : t[i] \in Ids(Arity[r][i]) }
GT(t) == [i \in DOMAIN t |-> G(t[i])]
HasDefs == \E k \in DOMAIN Stages : Stages[k].concl.kind = "def"

\* the evaluator state as an observed structure
AbsO == [cnt |-> cnt, rep |-> rep, tup |-> [r \in Rels |-> new[r] \cup old[r]]]   \* redefined below for member relations
Absorb(R, O) == PresUnion([els |-> [T \in Types |-> {G(i) : i \in OIds(O, T)}], eq |-> R.eq, tup |-> R.tup], OfObserved(O))

Init == /\ cnt = [T \in Types |-> 0] /\ rep = [T \in Types |-> <<>>]
        /\ tnew = [T \in Types |-> {}] /\ told = [T \in Types |-> {}]
        /\ new = [r \in Rels |-> {}] /\ old = [r \in Rels |-> {}]
        /\ upr = [T \in Types |-> {}] /\ pend = EmptyPend /\ pc = "idle" /\ ejd = TRUE
        /\ ref = EmptyPres /\ ch = [nf |-> NF(EmptyPres), done |-> TRUE] /\ gens = [T \in Types |-> {}]
        /\ lastRet = "none" /\ nops = 0 /\ hist = [ops |-> <<>>, nobs |-> 0]

(* ---------------- the caller's calls ---------------- *)
ApiNew(T) ==
  /\ pc = "idle" /\ cnt[T] < MaxEls
  /\ cnt' = [cnt EXCEPT ![T] = @ + 1]
  /\ rep' = [rep EXCEPT ![T] = [i \in 0..cnt[T] |-> IF i = cnt[T] THEN i ELSE rep[T][i]]]
  /\ tnew' = [tnew EXCEPT ![T] = @ \cup {cnt[T]}]
  /\ ref' = [ref EXCEPT !.els[T] = @ \cup {G(cnt[T])}]
  /\ lastRet' = "none"
  /\ hist' = Rec(Call("new", T, "", <<>>, 0, 0, 0, cnt[T]))
  /\ UNCHANGED <<told, new, old, upr, pend, pc, ejd, ch, gens, nops>>

ApiInsert(r, t) ==
  /\ pc = "idle" /\ nops < MaxAsserts
  /\ LET ct == Canon(r, t) IN new' = IF ct \in new[r] \cup old[r] THEN new ELSE [new EXCEPT ![r] = @ \cup {ct}]
  /\ ref' = [ref EXCEPT !.tup = @ \cup {<<r, GT(t)>>}]
  /\ lastRet' = "none" /\ nops' = nops + 1
  /\ hist' = Rec(Call("insert", "", r, t, 0, 0, 0, 0))
  /\ UNCHANGED <<cnt, rep, tnew, told, old, upr, pend, pc, ejd, ch, gens>>

ApiEquate(T, a, b) ==
  /\ pc = "idle" /\ nops < MaxAsserts /\ a \in Ids(T) /\ b \in Ids(T) /\ rep[T][a] # rep[T][b]
  /\ \E pr \in {<<rep[T][a], rep[T][b]>>, <<rep[T][b], rep[T][a]>>} :     \* which root survives: the weight heuristic, abstracted
        /\ rep' = [rep EXCEPT ![T] = [i \in DOMAIN rep[T] |-> IF rep[T][i] = pr[2] THEN pr[1] ELSE rep[T][i]]]
        /\ tnew' = [tnew EXCEPT ![T] = @ \ {pr[2]}]
        /\ told' = [told EXCEPT ![T] = @ \ {pr[2]}]
        /\ upr' = [upr EXCEPT ![T] = @ \cup {pr[2]}]
  /\ ref' = [ref EXCEPT !.eq = @ \cup {<<T, G(a), G(b)>>}]
  /\ lastRet' = "none" /\ nops' = nops + 1
  /\ hist' = Rec(Call("equate", T, "", <<>>, a, b, 0, 0))
  /\ UNCHANGED <<cnt, new, old, pend, pc, ejd, ch, gens>>

(* ---------------- canonicalize ---------------- *)
\* rows containing a non-root id are removed from the table of their age, rewritten to roots and
\* re-inserted through insert_, i.e. as NEW unless already present
StaleBy(rp, r, t) == \E i \in DOMAIN t : rp[Arity[r][i]][t[i]] # t[i]
CanonBy(rp, r, t) == [i \in DOMAIN t |-> rp[Arity[r][i]][t[i]]]
CanonTables(rp, nw, ol) ==
  LET keepN == [r \in Rels |-> {t \in nw[r] : ~StaleBy(rp, r, t)}]
      keepO == [r \in Rels |-> {t \in ol[r] : ~StaleBy(rp, r, t)}]
      rew == [r \in Rels |-> {CanonBy(rp, r, t) : t \in {t \in nw[r] \cup ol[r] : StaleBy(rp, r, t)}}]
  IN [new |-> [r \in Rels |-> keepN[r] \cup (rew[r] \ keepO[r])], old |-> keepO]

CloseBegin ==
  /\ pc = "idle"
  /\ LET c == CanonTables(rep, new, old) IN new' = c.new /\ old' = c.old
  /\ upr' = [T \in Types |-> {}]
  /\ pc' = "obs0" /\ lastRet' = "none"
  /\ ch' = LET c == ChaseN(ref, 40) IN [nf |-> NF(c.R), done |-> c.done]
  /\ gens' = [T \in Types |-> Ids(T)]
  /\ hist' = [hist EXCEPT !.nobs = 0]
  /\ UNCHANGED <<cnt, rep, tnew, told, pend, ejd, ref, nops>>

(* ---------------- member relations: own and all copies (recompute_model_indices) ---------------- *)
\* For a member relation the tables new/old hold the OWN copies.  The ALL copy of an age is
\* recomputed from the own copy *of the same age*: along every morphism whose dom and cod are
\* known (in either age) the tuples of the domain object are added at the codomain object,
\* transitively - exactly what the generated recompute_model_indices does per index.  (This is where
\* finding KF-C17-1 lives: when a morphism becomes known, the domain's old tuples appear in the old
\* ALL copy of the codomain and are never presented to the rules as new.)
Morphisms(nw, ol) == IF DomRel = "" THEN {}
  ELSE { <<dc[1][2], dc[2][2]>> : dc \in { x \in (nw[DomRel] \cup ol[DomRel]) \X (nw[CodRel] \cup ol[CodRel]) : x[1][1] = x[2][1] } }
RECURSIVE Inherit(_, _)
Inherit(S, mors) == LET S2 == S \cup UNION { { [t EXCEPT ![1] = m[2]] : m \in {m \in mors : m[1] = t[1]} } : t \in S }
                    IN IF S2 = S THEN S ELSE Inherit(S2, mors)
AllCopy(r, own, nw, ol) == IF r \in Members THEN Inherit(own, Morphisms(nw, ol)) ELSE own
TabNew(r) == AllCopy(r, new[r], new, old)
TabOld(r) == AllCopy(r, old[r], new, old)

\* what the public iterators show: the ALL copies
PubO == [cnt |-> cnt, rep |-> rep, tup |-> [r \in Rels |-> TabNew(r) \cup TabOld(r)]]
\* C04 at observation points, member relations included: no tuple is yielded twice
NoDupAtObs == pc \in {"obs0", "obs"} => \A r \in Rels : TabNew(r) \cap TabOld(r) = {}

(* ---------------- one iteration of the loop ---------------- *)
AgeSet(at, age) ==
  IF at.kind = "set"
  THEN { <<x>> : x \in (CASE age = "new" -> tnew[at.rel] [] age = "old" -> told[at.rel] [] OTHER -> tnew[at.rel] \cup told[at.rel]) }
  ELSE (CASE age = "new" -> TabNew(at.rel) [] age = "old" -> TabOld(at.rel) [] OTHER -> TabNew(at.rel) \cup TabOld(at.rel))
PlanAge(i, j) == IF j < i THEN "all" ELSE IF j = i THEN "new" ELSE "old"
\* the generated rule functions as extracted: every function joins its premise atoms in the ages it
\* was emitted with and collects all its conclusions (the implicit single-valuedness rules of
\* functions are rule functions of their own in the generated code: `functionality_<k>`)
PlanDelta ==
  UnionDelta({ LET prem == Plan[k].prem  cs == Plan[k].concl IN
               IF Len(prem) = 0
               THEN (IF ejd THEN UnionDelta({ConclOf(cs[c], <<>>) : c \in DOMAIN cs}) ELSE EmptyDelta)
               ELSE UnionDelta({ UnionDelta({ConclOf(cs[c], a) : c \in DOMAIN cs}) :
                                 a \in Matches(prem, [j \in DOMAIN prem |-> AgeSet(prem[j], prem[j].age)]) })
             : k \in DOMAIN Plan })
IdealDelta ==
  LET stageDelta(k) ==
         LET prem == RuleStages[k].prem IN
         IF Len(prem) = 0 THEN (IF ejd THEN ConclOf(RuleStages[k].concl, <<>>) ELSE EmptyDelta)
         ELSE UnionDelta({ UnionDelta({ ConclOf(RuleStages[k].concl, a) :
                a \in Matches(prem, [j \in DOMAIN prem |-> AgeSet(prem[j], PlanAge(i, j))]) }) : i \in DOMAIN prem })
      fdelta == [tuples |-> {}, defs |-> {},
                 eqs |-> UNION { { <<ResT(f), p[1][Len(p[1])], p[2][Len(p[2])]>> :
                        p \in { q \in new[f] \X (new[f] \cup old[f]) : \A i \in 1..(Len(Arity[f]) - 1) : q[1][i] = q[2][i] } } : f \in Funcs }]
  IN UnionDelta({stageDelta(k) : k \in DOMAIN RuleStages} \cup {fdelta})
RuleDelta == IF UsePlan THEN PlanDelta ELSE IdealDelta

\* classes of roots after merging along eqs
ClassesAfter(T, eqs) ==
  LET E == {<<rep[T][e[2]], rep[T][e[3]]>> : e \in {e \in eqs : e[1] = T}}
      rts == tnew[T] \cup told[T]
      RECURSIVE Reach(_, _)
      Reach(front, seen) == LET nxt == { y \in rts : \E x \in front : <<x, y>> \in E \/ <<y, x>> \in E } \ seen
                            IN IF nxt = {} THEN seen ELSE Reach(nxt, seen \cup nxt)
  IN { Reach({x}, {x}) : x \in rts }
MergedClasses(eqs) == UNION { { <<T, C>> : C \in {C \in ClassesAfter(T, eqs) : Cardinality(C) > 1} } : T \in Types }

Iterate ==
  /\ pc = "run"
  /\ LET d0 == RuleDelta
         d == [tuples |-> pend.tuples \cup d0.tuples, eqs |-> pend.eqs \cup d0.eqs, defs |-> pend.defs \cup d0.defs]
         old1 == [r \in Rels |-> old[r] \cup new[r]]
         told1 == [T \in Types |-> told[T] \cup tnew[T]]
         MC == MergedClasses(d.eqs)
     IN \E surv \in [MC -> 0..(MaxId - 1)] :
          /\ \A tc \in MC : surv[tc] \in tc[2]
          /\ LET newRoot(T, x) == IF \E tc \in MC : tc[1] = T /\ x \in tc[2]
                                  THEN surv[CHOOSE tc \in MC : tc[1] = T /\ x \in tc[2]] ELSE x
                 rep1 == [T \in Types |-> [i \in DOMAIN rep[T] |-> newRoot(T, rep[T][i])]]
                 told2 == [T \in Types |-> {x \in told1[T] : rep1[T][x] = x}]
                 c == CanonTables(rep1, [r \in Rels |-> {}], old1)
                 ins == [r \in Rels |-> { CanonBy(rep1, r, x[2]) : x \in {x \in d.tuples : x[1] = r} } \ c.old[r]]
             IN /\ rep' = rep1
                /\ told' = told2 /\ tnew' = [T \in Types |-> {}]
                /\ old' = c.old
                /\ new' = [r \in Rels |-> c.new[r] \cup ins[r]]
                /\ upr' = [T \in Types |-> {}]
                /\ pend' = [tuples |-> {}, eqs |-> {}, defs |-> d.defs]
  /\ ejd' = FALSE /\ pc' = "obs"
  /\ hist' = [hist EXCEPT !.nobs = IF RecordHist THEN @ + 1 ELSE @]
  /\ UNCHANGED <<cnt, ref, ch, gens, lastRet, nops>>

Dirty == ejd \/ (\E r \in Rels : new[r] # {}) \/ (\E T \in Types : tnew[T] # {} \/ upr[T] # {})

ReturnTrue ==
  /\ pc \in {"obs0", "obs"}
  /\ pc' = "idle" /\ lastRet' = "true"
  \* an early return at the first observation does not touch the stored delta; one inside the loop
  \* stores it (repaired design) or loses it
  /\ pend' = IF KeepPending \/ pc = "obs0" THEN pend ELSE EmptyPend
  /\ ref' = Absorb(ref, PubO)
  /\ hist' = Rec(Call("close_until", "", "", <<>>, 0, 0, hist.nobs, 0))
  /\ UNCHANGED <<cnt, rep, tnew, told, new, old, upr, ejd, ch, gens, nops>>

Continue0 == /\ pc = "obs0" /\ pc' = "run"
             /\ pend' = IF KeepPending THEN pend ELSE EmptyPend      \* `let mut delta = ...`
             /\ UNCHANGED <<cnt, rep, tnew, told, new, old, upr, ejd, ref, ch, gens, lastRet, nops, hist>>

\* apply pending function definitions one after the other
RECURSIVE ApplyDefs(_, _)
ApplyDefs(S, defs) ==
  IF defs = {} THEN S ELSE
  LET df == CHOOSE x \in defs : TRUE
      f == df[1]  res == ResT(f)
      cargs == [i \in DOMAIN df[2] |-> S.rep[Arity[f][i]][df[2][i]]]
      defined == \E t \in S.new[f] \cup S.old[f] : \A i \in DOMAIN cargs : t[i] = cargs[i]
      id == S.cnt[res]
      S2 == IF defined THEN S ELSE
            [S EXCEPT !.cnt[res] = @ + 1,
                      !.rep[res] = [i \in 0..id |-> IF i = id THEN id ELSE S.rep[res][i]],
                      !.tnew[res] = @ \cup {id},
                      !.new[f] = @ \cup {cargs \o <<id>>}]
  IN ApplyDefs(S2, defs \ {df})

Continue ==
  /\ pc = "obs"
  /\ IF Dirty THEN pc' = "run" /\ UNCHANGED <<cnt, rep, tnew, new, pend, lastRet, ref, hist>>
     ELSE LET S == ApplyDefs([cnt |-> cnt, rep |-> rep, tnew |-> tnew, new |-> new, old |-> old], pend.defs)
              dirty2 == (\E r \in Rels : S.new[r] # {}) \/ (\E T \in Types : S.tnew[T] # {})
          IN /\ cnt' = S.cnt /\ rep' = S.rep /\ tnew' = S.tnew /\ new' = S.new
             /\ pend' = [pend EXCEPT !.defs = {}]
             /\ IF dirty2 THEN pc' = "run" /\ UNCHANGED <<lastRet, ref, hist>>
                ELSE /\ pc' = "idle" /\ lastRet' = "false"
                     /\ hist' = Rec(Call("close", "", "", <<>>, 0, 0, 0, 0))
                     /\ ref' = Absorb(ref, [cnt |-> S.cnt, rep |-> S.rep, tup |-> [r \in Rels |-> S.new[r] \cup old[r]]])
  /\ UNCHANGED <<told, old, upr, ejd, ch, gens, nops>>

LoopStep == Continue0 \/ Iterate \/ Continue
Next == \/ \E T \in Types : ApiNew(T)
        \/ \E r \in Rels : \E t \in TuplesOver(r) : ApiInsert(r, t)
        \/ \E T \in Types : \E a, b \in 0..(MaxEls - 1) : a < b /\ ApiEquate(T, a, b)
        \/ CloseBegin \/ ReturnTrue \/ LoopStep
Spec == Init /\ [][Next]_vars
FairSpec == Spec /\ WF_vars(LoopStep)
Bound == \A T \in Types : cnt[T] <= MaxId

(* ---------------- properties ---------------- *)
\* a `false` return is the reference chase of everything asserted (C01 + C02 + C03 + C07 resumption)
RefinesApi ==
  (pc = "idle" /\ lastRet = "false" /\ ch.done) =>
     LET O == PubO P == Phi(ch.nf, O, gens) IN
     CompleteBad(ch.nf, O, P) = {} /\ SoundBad(ch.nf, O, P) = {} /\ Unsatisfied(O) = {}
\* every state the condition can see is sound (C07) and canonical (C04)
SoundAtObs == (pc \in {"obs0", "obs"} /\ ch.done) => SoundBad(ch.nf, PubO, Phi(ch.nf, PubO, gens)) = {}
RootsOnly == pc \in {"obs0", "obs"} => \A r \in Rels : \A t \in new[r] \cup old[r] : ~StaleBy(rep, r, t)
TypeSetsExact == pc \in {"obs0", "obs"} => \A T \in Types : tnew[T] \cap told[T] = {} /\ tnew[T] \cup told[T] = {rep[T][i] : i \in Ids(T)}
Disjoint == \A r \in Rels : new[r] \cap old[r] = {}
\* C06: without definitions a close allocates nothing ...
NoAllocation == [][HasDefs \/ pc = "idle" \/ cnt' = cnt]_vars
\* ... and terminates
Terminates == (pc = "obs0") ~> (pc = "idle")
\* the same invariants, printing the call history of a violating state for replay on the real code
Cex(ok) == ok \/ (PrintT(<<"CEX", ToJson([ops |-> hist.ops, pc |-> pc, nobs |-> hist.nobs])>>) /\ FALSE)
RefinesApiCex == Cex(RefinesApi)
SoundAtObsCex == Cex(SoundAtObs)
=============================================================================
