SPECIFICATION Spec
CONSTANTS
  NObj = 3
  NMor = 3
INVARIANTS DesignValid Emit
CHECK_DEADLOCK FALSE
