------------------------------ MODULE Structure ------------------------------
(***************************************************************************)
(* Reference semantics of eqlog theories (C01, C02, C03, C07, C17).        *)
(*                                                                         *)
(* A theory is given by CONSTANTS: Types, Arity (relation |-> sequence of  *)
(* column types; for a function the last column is the result), Funcs and  *)
(* Stages - the reference denotation of the source rules computed by the   *)
(* independent front end tools/eql.py: one stage per `then` atom,          *)
(*   [prem  |-> sequence of [kind |-> "rel" | "set", rel, args],           *)
(*    concl |-> [kind |-> "tuple" | "eq" | "def", rel, args]]              *)
(* ("eq": rel is the type, args = <<lhs, rhs>>).  Inheritance along model  *)
(* morphisms is part of Stages (implicit stages).                          *)
(*                                                                         *)
(* A *presentation* R = [els, eq, tup] lives in an id space in which the   *)
(* generators (ids that exist at API level) are G(i) and every derived     *)
(* element is named by its defining term in prefix notation.  Chase(R) is  *)
(* the stratified naive chase (definitions only when the surjective        *)
(* conclusions are saturated), NF its normal form.  An *observed*          *)
(* structure O = [cnt, rep, tup] is what the implementation dumped.        *)
(* Phi is the least correspondence between chase classes and observed      *)
(* classes that is the identity on generators and closed under function    *)
(* graphs; Complete / Sound compare the two along Phi.                     *)
(***************************************************************************)
EXTENDS Integers, Sequences, FiniteSets, TLC
CONSTANTS Types, Arity, Funcs, Stages, ChaseMaxEls

Rels == DOMAIN Arity
Range(s) == {s[i] : i \in DOMAIN s}
G(i) == <<"g", ToString(i)>>
RECURSIVE Flat(_, _)
Flat(args, i) == IF i > Len(args) THEN <<>> ELSE args[i] \o Flat(args, i + 1)
TermId(f, args) == <<f>> \o Flat(args, 1)
ResT(f) == Arity[f][Len(Arity[f])]
Inst(args, a) == [j \in DOMAIN args |-> a[args[j]]]

(* ---------------- matching: join the premise atom by atom ---------------- *)
RECURSIVE Join(_, _, _, _)
Join(prem, i, partial, sets) ==
  IF i > Len(prem) THEN partial
  ELSE LET at == prem[i]
           ext == UNION { { [v \in DOMAIN a \cup Range(at.args) |->
                               IF v \in DOMAIN a THEN a[v] ELSE t[CHOOSE j \in DOMAIN at.args : at.args[j] = v]] :
                            t \in { t \in sets[i] : \A j \in DOMAIN at.args :
                                       /\ (at.args[j] \in DOMAIN a => a[at.args[j]] = t[j])
                                       /\ \A j2 \in DOMAIN at.args : at.args[j2] = at.args[j] => t[j2] = t[j] } }
                          : a \in partial }
       IN Join(prem, i + 1, ext, sets)
Matches(prem, sets) == Join(prem, 1, { [v \in {} |-> 0] }, sets)
\* tuple sets for the atoms of a premise, given canonical tuples ct and roots per type
SetsOf(prem, ct, roots) == [i \in DOMAIN prem |-> IF prem[i].kind = "set" THEN { <<x>> : x \in roots[prem[i].rel] } ELSE ct[prem[i].rel]]

(* ---------------- presentations and the chase ---------------- *)
RepOf(R) ==
  [T \in Types |->
     LET ids == R.els[T]
         E == {<<e[2], e[3]>> : e \in {e \in R.eq : e[1] = T}}
         RECURSIVE Reach(_, _)
         Reach(front, seen) ==
            LET nxt == { y \in ids : \E x \in front : <<x, y>> \in E \/ <<y, x>> \in E } \ seen
            IN IF nxt = {} THEN seen ELSE Reach(nxt, seen \cup nxt)
         cls == [i \in ids |-> Reach({i}, {i})]
     IN [i \in ids |-> CHOOSE x \in cls[i] : TRUE]]
CanonTup(R, rp, r) == { [i \in DOMAIN t[2] |-> rp[Arity[r][i]][t[2][i]]] : t \in {t \in R.tup : t[1] = r} }

EmptyDelta == [tuples |-> {}, eqs |-> {}, defs |-> {}]
ConclOf(c, a) ==
  CASE c.kind = "tuple" -> [tuples |-> {<<c.rel, Inst(c.args, a)>>}, eqs |-> {}, defs |-> {}]
    [] c.kind = "eq"    -> [tuples |-> {}, eqs |-> {<<c.rel, a[c.args[1]], a[c.args[2]]>>}, defs |-> {}]
    [] c.kind = "def"   -> [tuples |-> {}, eqs |-> {}, defs |-> {<<c.rel, Inst(c.args, a)>>}]
UnionDelta(S) == [tuples |-> UNION {d.tuples : d \in S}, eqs |-> UNION {d.eqs : d \in S}, defs |-> UNION {d.defs : d \in S}]

FuncEqs(ct) == UNION { { <<ResT(f), p[1][Len(p[1])], p[2][Len(p[2])]>> :
                        p \in { q \in ct[f] \X ct[f] : \A i \in 1..(Len(Arity[f]) - 1) : q[1][i] = q[2][i] } } : f \in Funcs }

Round(R) ==
  LET rp == RepOf(R)
      roots == [T \in Types |-> {rp[T][i] : i \in R.els[T]}]
      ct == [r \in Rels |-> CanonTup(R, rp, r)]
      d == UnionDelta({ UnionDelta({ ConclOf(Stages[k].concl, a) : a \in Matches(Stages[k].prem, SetsOf(Stages[k].prem, ct, roots)) }) : k \in DOMAIN Stages })
      need == { df \in d.defs : ~ \E t \in ct[df[1]] : \A i \in DOMAIN df[2] : t[i] = df[2][i] }
      surj == [els |-> R.els, eq |-> R.eq \cup d.eqs \cup FuncEqs(ct), tup |-> R.tup \cup d.tuples]
  IN \* like the generated code: definitions are applied only when the surjective conclusions are saturated
     IF surj # R THEN surj
     ELSE [els |-> [T \in Types |-> R.els[T] \cup { TermId(df[1], df[2]) : df \in {x \in need : ResT(x[1]) = T} }],
           eq |-> R.eq,
           tup |-> R.tup \cup { <<df[1], df[2] \o <<TermId(df[1], df[2])>> >> : df \in need }]
TooBig(R) == \E T \in Types : Cardinality(R.els[T]) > ChaseMaxEls
\* result: [R, done]; done = FALSE when the element budget or the fuel ran out (inconclusive)
RECURSIVE ChaseN(_, _)
ChaseN(R, fuel) == IF fuel = 0 \/ TooBig(R) THEN [R |-> R, done |-> FALSE]
                   ELSE LET R2 == Round(R) IN IF R2 = R THEN [R |-> R, done |-> TRUE] ELSE ChaseN(R2, fuel - 1)
NF(R) == LET rp == RepOf(R) IN [els |-> R.els, rep |-> rp, roots |-> [T \in Types |-> {rp[T][i] : i \in R.els[T]}],
                                 tup |-> [r \in Rels |-> CanonTup(R, rp, r)]]
EmptyPres == [els |-> [T \in Types |-> {}], eq |-> {}, tup |-> {}]

(* ---------------- observed structures ---------------- *)
\* O = [cnt: T -> Nat, rep: T -> [0..cnt-1 -> root], tup: r -> set of tuples of naturals]
OIds(O, T) == 0..(O.cnt[T] - 1)
ORoots(O) == [T \in Types |-> {O.rep[T][i] : i \in OIds(O, T)}]
OTup(O, r) == { [i \in DOMAIN t |-> O.rep[Arity[r][i]][t[i]]] : t \in O.tup[r] }
OfObserved(O) == [els |-> [T \in Types |-> {G(i) : i \in OIds(O, T)}],
                  eq |-> UNION { { <<T, G(i), G(O.rep[T][i])>> : i \in OIds(O, T) } : T \in Types },
                  tup |-> UNION { { <<r, [i \in DOMAIN t |-> G(t[i])]>> : t \in O.tup[r] } : r \in Rels }]
PresUnion(A, B) == [els |-> [T \in Types |-> A.els[T] \cup B.els[T]], eq |-> A.eq \cup B.eq, tup |-> A.tup \cup B.tup]

\* Direct evaluation of the reference stages on an observed structure (C01): the set of
\* <<stage index, "tuple"|"eq"|"def"|"functionality">> that have an unsatisfied instance.
Unsatisfied(O) ==
  LET roots == ORoots(O)
      ct == [r \in Rels |-> OTup(O, r)]
      holds(c, a) ==
        CASE c.kind = "tuple" -> Inst(c.args, a) \in ct[c.rel]
          [] c.kind = "eq"    -> a[c.args[1]] = a[c.args[2]]
          [] c.kind = "def"   -> \E t \in ct[c.rel] : \A i \in DOMAIN c.args : t[i] = a[c.args[i]]
  IN { <<k, Stages[k].concl.kind>> : k \in { k \in DOMAIN Stages :
           \E a \in Matches(Stages[k].prem, SetsOf(Stages[k].prem, ct, roots)) : ~holds(Stages[k].concl, a) } }
     \cup { <<0, f>> : f \in { f \in Funcs : \E p \in ct[f] \X ct[f] :
                                  /\ \A i \in 1..(Len(Arity[f]) - 1) : p[1][i] = p[2][i]
                                  /\ p[1][Len(Arity[f])] # p[2][Len(Arity[f])] } }

(* ---------------- class correspondence ---------------- *)
RECURSIVE PhiFix(_, _, _)
PhiFix(P, C, O) ==
  LET P2 == [T \in Types |-> P[T] \cup UNION { UNION { { <<tc[Len(tc)], to[Len(to)]>> :
                   to \in { to \in OTup(O, f) : \A i \in 1..(Len(Arity[f]) - 1) : <<tc[i], to[i]>> \in P[Arity[f][i]] } }
                 : tc \in C.tup[f] }
               : f \in {f \in Funcs : ResT(f) = T} }]
  IN IF P2 = P THEN P ELSE PhiFix(P2, C, O)
\* gens: T -> set of naturals (the ids that are generators of the presentation C was chased from)
Phi(C, O, gens) == PhiFix([T \in Types |-> { <<C.rep[T][G(i)], O.rep[T][i]>> : i \in gens[T] }], C, O)

\* everything the chase has is in O (C01 through the chase); reasons as a set of strings
CompleteBad(C, O, P) ==
  (IF \A T \in Types : \A c \in C.roots[T] : \E p \in P[T] : p[1] = c THEN {} ELSE {"an element the rules force is missing"})
  \cup (IF \A T \in Types : \A p, q \in P[T] : p[2] = q[2] \/ p[1] # q[1] THEN {} ELSE {"an equality the rules force is missing"})
  \cup (IF \A r \in Rels : \A t \in C.tup[r] : \E u \in OTup(O, r) : \A i \in DOMAIN t : <<t[i], u[i]>> \in P[Arity[r][i]]
        THEN {} ELSE {"a tuple the rules force is missing"})
\* everything O has is in the chase (C02 / C07)
SoundBad(C, O, P) ==
  (IF \A T \in Types : \A o \in ORoots(O)[T] : \E p \in P[T] : p[2] = o THEN {} ELSE {"an element exists that no term over the asserted facts denotes"})
  \cup (IF \A T \in Types : \A p, q \in P[T] : p[1] = q[1] \/ p[2] # q[2] THEN {} ELSE {"two elements are equal although the rules do not force it"})
  \cup (IF \A r \in Rels : \A u \in OTup(O, r) : \E t \in C.tup[r] : \A i \in DOMAIN t : <<t[i], u[i]>> \in P[Arity[r][i]]
        THEN {} ELSE {"a tuple is present that the rules do not force"})
=============================================================================
