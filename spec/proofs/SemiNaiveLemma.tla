---- MODULE SemiNaiveLemma ----
EXTENDS Naturals, TLAPS, NaturalsInduction
(* The ideal plan of to_semi_naive: sub-rule i reads atom i as new, atoms before i as all,
   atoms after i as old.  A labelling lab of the n atoms is accepted by sub-rule i iff
   lab[i] = "new" and every later atom is "old". *)
Accepts(n, lab, i) == i \in 1..n /\ lab[i] = "new" /\ \A j \in (i+1)..n : lab[j] = "old"

THEOREM AtMostOnce ==
  ASSUME NEW n \in Nat, NEW lab \in [1..n -> {"new", "old"}],
         NEW i \in 1..n, NEW k \in 1..n, Accepts(n, lab, i), Accepts(n, lab, k)
  PROVE i = k
<1>1. CASE i < k
  <2>1. k \in (i+1)..n  BY <1>1
  <2>2. lab[k] = "old"  BY <2>1 DEF Accepts
  <2>3. lab[k] = "new"  BY DEF Accepts
  <2> QED BY <2>2, <2>3
<1>2. CASE k < i
  <2>1. i \in (k+1)..n  BY <1>2
  <2>2. lab[i] = "old"  BY <2>1 DEF Accepts
  <2>3. lab[i] = "new"  BY DEF Accepts
  <2> QED BY <2>2, <2>3
<1> QED BY <1>1, <1>2

THEOREM NoneIfAllOld ==
  ASSUME NEW n \in Nat, NEW lab \in [1..n -> {"new", "old"}],
         \A j \in 1..n : lab[j] = "old", NEW i \in 1..n
  PROVE ~Accepts(n, lab, i)
BY DEF Accepts

(* existence: by induction on m, among the first m atoms either none is new or there is a last new one *)
LastNew(n, lab, m, i) == i \in 1..m /\ lab[i] = "new" /\ \A j \in (i+1)..m : lab[j] = "old"
THEOREM Exists ==
  ASSUME NEW n \in Nat, NEW lab \in [1..n -> {"new", "old"}]
  PROVE \A m \in Nat : m <= n => ((\A j \in 1..m : lab[j] = "old") \/ \E i \in 1..m : LastNew(n, lab, m, i))
<1> DEFINE P(m) == m <= n => ((\A j \in 1..m : lab[j] = "old") \/ \E i \in 1..m : LastNew(n, lab, m, i))
<1>1. P(0)  OBVIOUS
<1>2. ASSUME NEW m \in Nat, P(m) PROVE P(m+1)
  <2> SUFFICES ASSUME m + 1 <= n PROVE (\A j \in 1..(m+1) : lab[j] = "old") \/ \E i \in 1..(m+1) : LastNew(n, lab, m+1, i)
      OBVIOUS
  <2>0. m <= n /\ m+1 \in 1..n  OBVIOUS
  <2>1. CASE lab[m+1] = "new"
     <3>1. LastNew(n, lab, m+1, m+1)  BY <2>1 DEF LastNew
     <3> QED BY <3>1
  <2>2. CASE lab[m+1] = "old"
     <3>1. CASE \A j \in 1..m : lab[j] = "old"
         BY <3>1, <2>2
     <3>2. CASE \E i \in 1..m : LastNew(n, lab, m, i)
        <4>1. PICK i \in 1..m : LastNew(n, lab, m, i)  BY <3>2
        <4>2. LastNew(n, lab, m+1, i)  BY <4>1, <2>2 DEF LastNew
        <4> QED BY <4>2
     <3> QED BY <3>1, <3>2, <1>2, <2>0
  <2>3. lab[m+1] \in {"new", "old"}  BY <2>0
  <2> QED BY <2>1, <2>2, <2>3
<1>3. \A m \in Nat : P(m)  BY <1>1, <1>2, NatInduction, Isa
<1> QED BY <1>3
====
