------------------------------- MODULE DetTrace -------------------------------
(***************************************************************************)
(* C13 / C20: runs that must produce identical observable output.  Each    *)
(* trace line is one run [group, label, out] where `out` maps an output    *)
(* name (generated file, or line of a driver transcript) to its digest;    *)
(* all runs of a group must have equal `out`.  For C13 a group is one      *)
(* source directory compiled under different thread counts, directory      *)
(* layouts, completion orders and processes; Build.tla's Deterministic     *)
(* invariant is the design-level counterpart.                              *)
(***************************************************************************)
EXTENDS Integers, Sequences, FiniteSets, TLC, Json, IOUtils
CONSTANT Prop
Rec == ndJsonDeserialize(IOEnv.TRACE)
VARIABLES l, first, viol
vars == <<l, first, viol>>
Init == l = 1 /\ first = [group |-> "", label |-> "", out |-> <<>>] /\ viol = {}
Differing(a, b) == {k \in DOMAIN a \cup DOMAIN b : k \notin DOMAIN a \/ k \notin DOMAIN b \/ a[k] # b[k]}
Step ==
  /\ l <= Len(Rec) /\ l' = l + 1
  /\ LET e == Rec[l] IN
     IF e.group # first.group THEN first' = [group |-> e.group, label |-> e.label, out |-> e.out] /\ viol' = viol
     ELSE /\ first' = first
          /\ viol' = IF e.out = first.out \/ Cardinality(viol) >= 20 THEN viol
                     ELSE viol \cup {[prop |-> Prop, line |-> l, id |-> e.group,
                                     what |-> "run " \o e.label \o " differs from run " \o first.label \o " in " \o ToString(Cardinality(Differing(first.out, e.out))) \o " outputs"]}
Spec == Init /\ [][Step]_vars
Report == (l = Len(Rec) + 1) => PrintT(<<"RESULT", ToJson([viol |-> viol, events |-> Len(Rec)])>>)
AllConsumed == TLCGet("stats").diameter = Len(Rec) + 1 \/ PrintT(<<"UNMATCHED", TLCGet("stats").diameter>>)
=============================================================================
