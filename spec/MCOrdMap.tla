---- MODULE MCOrdMap ----
EXTENDS OrdMap, Json
\* one line per complete behaviour; tools/tlc.py collects them as replay cases
Emit == Len(hist) < MaxOps \/ PrintT(<<"REPLAY", ToJson(hist)>>)
====
