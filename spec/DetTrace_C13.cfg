SPECIFICATION Spec
CONSTANT Prop = "C13"
INVARIANT Report
POSTCONDITION AllConsumed
CHECK_DEADLOCK FALSE
