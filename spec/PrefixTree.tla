------------------------------ MODULE PrefixTree ------------------------------
(***************************************************************************)
(* PrefixTreeOps as a state machine over NH handles of arity N with        *)
(* column values from U.  TLC checks the laws and (MCPrefixTree) emits     *)
(* every operation sequence of the scope for replay on the real type.      *)
(***************************************************************************)
EXTENDS PrefixTreeOps
CONSTANTS N, U, NH, MaxOps
VARIABLES sets, hist
vars == <<sets, hist>>
Handles == 1..NH
Tuples(n) == [1..n -> U]
IdMap == [id |-> TRUE, pairs |-> <<>>]
Op(name, h, h2, h3, k, k2, t, sub, maps) ==
  [op |-> name, h |-> h, h2 |-> h2, h3 |-> h3, k |-> k, k2 |-> k2, t |-> t, sub |-> sub, maps |-> maps]
\* sub-relations given explicitly: the empty one, singletons and one two-element relation
Subs == IF N = 0 THEN {<<>>} ELSE {<<>>} \cup {<<t>> : t \in Tuples(N-1)}
\* partial maps used for `mapped`: identity, a constant-shift that drops one value, a collapsing map
SomeMaps == {IdMap,
             [id |-> FALSE, pairs |-> <<>>],
             [id |-> FALSE, pairs |-> << <<0, 1>> >>],
             [id |-> FALSE, pairs |-> << <<0, 1>>, <<1, 1>> >>]}
Ops ==
     {Op(n, h, 0, 0, 0, 0, t, <<>>, <<>>) : n \in {"insert", "remove", "contains"}, h \in Handles, t \in Tuples(N)}
     \cup {Op("clear", h, 0, 0, 0, 0, <<>>, <<>>, <<>>) : h \in Handles}
     \cup {Op("clone", h, h2, 0, 0, 0, <<>>, <<>>, <<>>) : h \in Handles, h2 \in Handles}
     \cup {Op(n, h, h2, h3, 0, 0, <<>>, <<>>, <<>>) : n \in {"union", "diff"}, h \in Handles, h2 \in Handles, h3 \in Handles}
     \cup (IF N = 0 THEN {} ELSE
           {Op("get", h, 0, 0, k, 0, <<>>, <<>>, <<>>) : h \in Handles, k \in U}
           \cup {Op(n, h, 0, 0, k, 0, <<>>, s, <<>>) : n \in {"insert_restriction", "remove_restriction"}, h \in Handles, k \in U, s \in Subs}
           \cup {Op(n, h, h2, 0, k, k2, <<>>, <<>>, <<>>) : n \in {"insert_restriction_from", "remove_restriction_from"},
                                                            h \in Handles, h2 \in Handles, k \in U, k2 \in U}
           \cup {Op("mapped", h, h2, 0, 0, 0, <<>>, <<>>, [i \in 1..N |-> IF i = c THEN m ELSE IdMap]) :
                    h \in Handles, h2 \in Handles, c \in 1..N, m \in SomeMaps})
     \cup (IF N < 2 THEN {} ELSE
           {Op("restrictions", h, 0, 0, 0, 0, <<>>, <<>>, <<>>) : h \in Handles}
           \cup {Op("get_mut_insert", h, 0, 0, k, 0, t, <<>>, <<>>) : h \in Handles, k \in U, t \in Tuples(N-1)}
           \cup {Op("restrictions_mut_insert", h, 0, 0, 0, 0, t, <<>>, <<>>) : h \in Handles, t \in Tuples(N-1)})

Init == sets = [h \in Handles |-> {}] /\ hist = <<>>
Next == Len(hist) < MaxOps /\ \E o \in Ops : sets' = Apply(N, sets, o) /\ hist' = Append(hist, o)
Spec == Init /\ [][Next]_vars
TypeOK == \A h \in Handles : \A t \in sets[h] : Len(t) = N
Independence == [][\A o \in Ops : (hist' = Append(hist, o)) => \A h \in Handles \ {o.h} : sets'[h] = sets[h]]_vars
\* removing what was inserted under a prefix restores the set when they were disjoint before
RestrictionLaw == \A h \in Handles : \A k \in U : \A s \in Subs :
   LET o1 == Op("insert_restriction", h, 0, 0, k, 0, <<>>, s, <<>>)
       o2 == Op("remove_restriction", h, 0, 0, k, 0, <<>>, s, <<>>)
   IN N = 0 \/ ({Cons(k, t) : t \in ToSet(s)} \cap sets[h] # {}) \/ Apply(N, Apply(N, sets, o1), o2) = sets
=============================================================================
