SPECIFICATION Spec
CONSTANT N = 6
INVARIANTS Inv UnionOk DiffOk
PROPERTY Refines
CHECK_DEADLOCK FALSE
