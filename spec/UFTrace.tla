------------------------------- MODULE UFTrace -------------------------------
(***************************************************************************)
(* Trace validation of eqlog_runtime::Unification against UnionFindOps.    *)
(* Every event is one call on the value (`root`, `union`, `grow`) or on    *)
(* its clone (`croot`, `cunion`), with the result and, after the call,     *)
(* root_const of every element, classes() and len() of both values.  The   *)
(* monitor applies the contract to the state observed before the call,     *)
(* compares, records disagreements and re-synchronises to what was seen.   *)
(***************************************************************************)
EXTENDS UnionFindOps, Json, IOUtils
Rec == ndJsonDeserialize(IOEnv.TRACE)
VARIABLES l, cur, rt, crt, viol
vars == <<l, cur, rt, crt, viol>>
V(e, what) == [prop |-> "C05", line |-> l, id |-> e.id, what |-> what]
Init == l = 1 /\ cur = -1 /\ rt = <<>> /\ crt = <<>> /\ viol = {}
\* classes() arrives as a sequence of <<root, members>> in the iteration order of the BTreeMap
ClassesOk(cl, roots) ==
  LET want == ClassesOf(roots) IN
  /\ Len(cl) = Cardinality(DOMAIN want)
  /\ \A i \in DOMAIN cl : cl[i][1] \in DOMAIN want /\ cl[i][2] = want[cl[i][1]]
  /\ \A i, j \in DOMAIN cl : i < j => cl[i][1] < cl[j][1]
Shape(e, roots, cl, ln, which) ==
  (IF ln = Len(roots) THEN {} ELSE {which \o ": len() differs from the number of elements"})
  \cup (IF WellFormed(roots) THEN {} ELSE {which \o ": root_const is not idempotent / leaves the element range"})
  \cup (IF ClassesOk(cl, roots) THEN {} ELSE {which \o ": classes() disagrees with root_const"})
Step ==
  /\ l <= Len(Rec) /\ l' = l + 1
  /\ LET e == Rec[l]
         fresh == e.id # cur
         r0 == IF fresh THEN <<>> ELSE rt
         c0 == IF fresh THEN <<>> ELSE crt
     IN
     IF e.ev = "panic" THEN /\ viol' = viol \cup {V(e, "panic inside the preconditions: " \o e.msg)}
                            /\ cur' = e.id /\ rt' = r0 /\ crt' = c0
     ELSE
     LET want == CASE e.op = "grow" -> [r |-> Grow(r0, e.a), c |-> c0, ret |-> -1]
                   [] e.op = "root" -> [r |-> r0, c |-> c0, ret |-> At(r0, e.a)]
                   [] e.op = "union" -> [r |-> UnionInto(r0, e.a, e.b), c |-> c0, ret |-> -1]
                   [] e.op = "clone" -> [r |-> r0, c |-> r0, ret |-> -1]
                   [] e.op = "croot" -> [r |-> r0, c |-> c0, ret |-> At(c0, e.a)]
                   [] e.op = "cunion" -> [r |-> r0, c |-> UnionInto(c0, e.a, e.b), ret |-> -1]
         bad == (IF e.roots = want.r THEN {} ELSE {e.op \o ": the partition / representatives after the call are not what the contract yields"})
                \cup (IF e.croots = want.c THEN {} ELSE {e.op \o ": the clone is not independent of the original (or wrong on its own call)"})
                \cup (IF e.ret = want.ret THEN {} ELSE {e.op \o ": returned element is not the representative of the class"})
                \cup (IF e.op \in {"root", "croot"} /\ e.again # e.ret THEN {"root() is not idempotent"} ELSE {})
                \cup Shape(e, e.roots, e.classes, e.len, "value") \cup Shape(e, e.croots, e.cclasses, e.clen, "clone")
     IN /\ viol' = IF Cardinality(viol) < 12 THEN viol \cup {V(e, w) : w \in bad} ELSE viol
        /\ cur' = e.id /\ rt' = e.roots /\ crt' = e.croots
Spec == Init /\ [][Step]_vars
Report == (l = Len(Rec) + 1) => PrintT(<<"RESULT", ToJson([viol |-> viol, events |-> Len(Rec)])>>)
AllConsumed == TLCGet("stats").diameter = Len(Rec) + 1 \/ PrintT(<<"UNMATCHED", TLCGet("stats").diameter>>)
=============================================================================
