------------------------------ MODULE WBTreeOps ------------------------------
(***************************************************************************)
(* Transcription of the weight-balanced tree algorithms of                 *)
(* eqlog-runtime/src/wbtree/map.rs (keys only; values live in OrdMapOps):  *)
(* balance with DELTA = 3 / GAMMA = 2 on weights = size + 1, single and    *)
(* double rotations, insert_simple, remove_min, remove_existing_node,      *)
(* split, join (which compares *sizes*, not weights), union, difference    *)
(* and join_without_key.  A tree is Nil or [k, l, r, s] with s the cached  *)
(* size.  Ok(t) is the invariant C14 speaks about: search-tree order,      *)
(* exact cached sizes and the weight-balance condition at every node.      *)
(***************************************************************************)
EXTENDS Integers, Sequences, FiniteSets, TLC
DELTA == 3
GAMMA == 2
Nil == [nil |-> TRUE]
IsNil(t) == t = Nil
Size(t) == IF IsNil(t) THEN 0 ELSE t.s
Node(k, l, r) == [k |-> k, l |-> l, r |-> r, s |-> 1 + Size(l) + Size(r)]

RotL(n) == IF IsNil(n.r) THEN n ELSE Node(n.r.k, Node(n.k, n.l, n.r.l), n.r.r)
RotR(n) == IF IsNil(n.l) THEN n ELSE Node(n.l.k, n.l.l, Node(n.k, n.l.r, n.r))

Balance(n) ==
  LET ls == Size(n.l) rs == Size(n.r) lw == ls + 1 rw == rs + 1 IN
  IF ls + rs < 2 THEN n
  ELSE IF rw > DELTA * lw THEN
         (IF Size(n.r.l) + 1 < GAMMA * (Size(n.r.r) + 1) THEN RotL(n) ELSE RotL(Node(n.k, n.l, RotR(n.r))))
  ELSE IF lw > DELTA * rw THEN
         (IF Size(n.l.r) + 1 < GAMMA * (Size(n.l.l) + 1) THEN RotR(n) ELSE RotR(Node(n.k, RotL(n.l), n.r)))
  ELSE n

RECURSIVE Has(_, _)
Has(t, k) == IF IsNil(t) THEN FALSE ELSE IF k = t.k THEN TRUE ELSE IF k < t.k THEN Has(t.l, k) ELSE Has(t.r, k)

\* insert_simple: rebalances only when a node was actually added
RECURSIVE Ins(_, _)
Ins(t, k) == IF IsNil(t) THEN Node(k, Nil, Nil)
             ELSE IF k = t.k THEN t
             ELSE IF Has(t, k) THEN t
             ELSE IF k < t.k THEN Balance(Node(t.k, Ins(t.l, k), t.r))
             ELSE Balance(Node(t.k, t.l, Ins(t.r, k)))

\* returns <<minkey, rest>>
RECURSIVE RemMin(_)
RemMin(t) == IF IsNil(t.l) THEN <<t.k, t.r>>
             ELSE LET p == RemMin(t.l) IN <<p[1], Balance(Node(t.k, p[2], t.r))>>

RECURSIVE Rem(_, _)
Rem(t, k) ==  \* precondition Has(t, k)
  IF k = t.k THEN
     (IF IsNil(t.l) /\ IsNil(t.r) THEN Nil
      ELSE IF IsNil(t.r) THEN t.l
      ELSE IF IsNil(t.l) THEN t.r
      ELSE LET p == RemMin(t.r) IN Balance(Node(p[1], t.l, p[2])))
  ELSE IF k < t.k THEN Balance(Node(t.k, Rem(t.l, k), t.r))
  ELSE Balance(Node(t.k, t.l, Rem(t.r, k)))
Remove(t, k) == IF Has(t, k) THEN Rem(t, k) ELSE t

RECURSIVE Join(_, _, _)
Join(l, k, r) ==
  LET ls == Size(l) rs == Size(r) IN
  IF rs > DELTA * ls THEN Balance(Node(r.k, Join(l, k, r.l), r.r))
  ELSE IF ls > DELTA * rs THEN Balance(Node(l.k, l.l, Join(l.r, k, r)))
  ELSE Balance(Node(k, l, r))

\* <<left, found, right>>
RECURSIVE Split(_, _)
Split(t, k) ==
  IF IsNil(t) THEN <<Nil, FALSE, Nil>>
  ELSE IF k = t.k THEN <<t.l, TRUE, t.r>>
  ELSE IF k < t.k THEN LET p == Split(t.l, k) IN <<p[1], p[2], Join(p[3], t.k, t.r)>>
  ELSE LET p == Split(t.r, k) IN <<Join(t.l, t.k, p[1]), p[2], p[3]>>

RECURSIVE Union(_, _)
Union(a, b) ==
  IF IsNil(a) THEN b ELSE IF IsNil(b) THEN a
  ELSE IF Size(a) >= Size(b)
       THEN LET p == Split(b, a.k) IN Join(Union(a.l, p[1]), a.k, Union(a.r, p[3]))
       ELSE LET p == Split(a, b.k) IN Join(Union(p[1], b.l), b.k, Union(p[3], b.r))

\* difference with a filter: Drop is the set of common keys the filter rejects
RECURSIVE DiffF(_, _, _)
DiffF(a, b, Drop) ==
  IF IsNil(a) THEN Nil ELSE IF IsNil(b) THEN a
  ELSE LET p == Split(b, a.k)
           nl == DiffF(a.l, p[1], Drop)
           nr == DiffF(a.r, p[3], Drop)
       IN IF p[2] /\ a.k \in Drop
          THEN (IF IsNil(nl) THEN nr ELSE IF IsNil(nr) THEN nl
                ELSE LET q == RemMin(nr) IN Join(nl, q[1], q[2]))
          ELSE Join(nl, a.k, nr)
RECURSIVE Keys(_)
Keys(t) == IF IsNil(t) THEN {} ELSE Keys(t.l) \cup {t.k} \cup Keys(t.r)
Diff(a, b) == DiffF(a, b, Keys(a) \cap Keys(b))

RECURSIVE Height(_)
Height(t) == IF IsNil(t) THEN 0 ELSE 1 + (IF Height(t.l) > Height(t.r) THEN Height(t.l) ELSE Height(t.r))
RECURSIVE InOrder(_)
InOrder(t) == IF IsNil(t) THEN <<>> ELSE InOrder(t.l) \o <<t.k>> \o InOrder(t.r)

\* the invariant: cached sizes, search order, weight balance (the repository's own
\* is_weight_balanced: skipped when the node has fewer than two descendants)
RECURSIVE Ok(_)
Ok(t) == IF IsNil(t) THEN TRUE ELSE
   /\ t.s = 1 + Size(t.l) + Size(t.r)
   /\ \A x \in Keys(t.l) : x < t.k
   /\ \A x \in Keys(t.r) : x > t.k
   /\ (Size(t.l) + Size(t.r) >= 2 => (Size(t.r) + 1 <= DELTA * (Size(t.l) + 1) /\ Size(t.l) + 1 <= DELTA * (Size(t.r) + 1)))
   /\ Ok(t.l) /\ Ok(t.r)

\* "height logarithmic in size": (4/3)^h <= n + 1 follows from the balance condition up to the
\* slack of the small-node exemption; the bound checked is 4^(h-1) <= 3^(h-1) * (n + 1).
RECURSIVE Pow(_, _)
Pow(b, e) == IF e = 0 THEN 1 ELSE b * Pow(b, e - 1)
HeightOk(t) == LET h == Height(t) n == Size(t) IN
   h <= 1 \/ (h <= 15 /\ Pow(4, h - 1) <= Pow(3, h - 1) * (n + 1))
=============================================================================
