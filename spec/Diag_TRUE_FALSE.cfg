SPECIFICATION Spec
CONSTANTS
  MaxLen = 5
  KeepTerminators = TRUE
  EofFallback = FALSE
INVARIANTS NoPanic ContentOk RightLine
CHECK_DEADLOCK FALSE
