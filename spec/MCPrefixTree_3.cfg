SPECIFICATION Spec
CONSTANTS
  N = 3
  U = {0, 1}
  NH = 2
  MaxOps = 2
INVARIANTS TypeOK RestrictionLaw Emit
PROPERTY Independence
CHECK_DEADLOCK FALSE
