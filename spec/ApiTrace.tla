------------------------------- MODULE ApiTrace -------------------------------
(***************************************************************************)
(* Trace validation of generated eqlog models against the API contract     *)
(* (properties C01-C07, C15, C17).  The trace (ndjson, IOEnv.TRACE) is     *)
(* recorded by harness/model-driver: one event per API call and one per    *)
(* evaluation of the close_until condition, each with the projected        *)
(* abstract state `st` (ids, roots, iterator outputs, point queries, enum  *)
(* case queries) and the content of every physical index copy.             *)
(*                                                                         *)
(* The spec is a monitor: it never blocks.  Each event is checked against  *)
(* the contract; disagreements are recorded in `viol` as                   *)
(* [prop, line, id, what] and the monitor re-synchronises to the observed  *)
(* state.  The reference presentation `ref` accumulates, in the caller's   *)
(* id space, everything asserted through the API and everything observed   *)
(* at the end of a close; its stratified chase (Structure!ChaseN) is       *)
(* computed once per close_begin and compared with the observations of     *)
(* that close through the class correspondence Phi.                        *)
(***************************************************************************)
EXTENDS Structure, Json, IOUtils
CONSTANTS EnumTypes,     \* subset of Types
          Ctors,         \* enum type |-> set of constructor relations
          Definable,     \* relations with a define_ function
          Copies,        \* sequence of [field, rel, age, order, eqs, scope, isType]: the physical index copies
          ElIdx,         \* sequence of [field, rel, col]: per-element row lists; col = columns of that element type
          HasDefs        \* TRUE iff some stage has a "def" conclusion (the theory uses `!`)
Rec == ndJsonDeserialize(IOEnv.TRACE)
VARIABLES l, ref, prev, eqSince, chase, gens, cnt0, cls0, lastObs, viol, stats, callers, famFirst
vars == <<l, ref, prev, eqSince, chase, gens, cnt0, cls0, lastObs, viol, stats, callers, famFirst>>
ToSet(s) == {s[i] : i \in DOMAIN s}
NoDupSeq(s) == Len(s) = Cardinality(ToSet(s))

Obs(st) == [cnt |-> [T \in Types |-> st.cnt[T]],
            rep |-> [T \in Types |-> [i \in 0..(st.cnt[T] - 1) |-> st.rep[T][i + 1]]],
            tup |-> [r \in Rels |-> ToSet(st.tup[r])]]
EmptyObs == [cnt |-> [T \in Types |-> 0], rep |-> [T \in Types |-> <<>>], tup |-> [r \in Rels |-> {}]]
CanonBy(O, r, t) == [i \in DOMAIN t |-> O.rep[Arity[r][i]][t[i]]]
Classes(O, T) == Cardinality({O.rep[T][i] : i \in OIds(O, T)})
GT(t) == [i \in DOMAIN t |-> G(t[i])]

(* ---------- checks that apply to every dumped state (C05: root / are_equal) ---------- *)
DumpConsistent(st) ==
  LET O == Obs(st) IN
  (IF \A T \in Types : \A i \in OIds(O, T) : O.rep[T][i] \in OIds(O, T) /\ O.rep[T][O.rep[T][i]] = O.rep[T][i]
   THEN {} ELSE {[prop |-> "C05", what |-> "root_ is not idempotent"]})
  \cup (IF \A T \in Types : st.cnt[T] > 12 \/
             ToSet(st.eq[T]) = { <<p[1], p[2]>> : p \in { q \in OIds(O, T) \X OIds(O, T) : q[1] < q[2] /\ O.rep[T][q[1]] = O.rep[T][q[2]] } }
        THEN {} ELSE {[prop |-> "C05", what |-> "are_equal_ disagrees with root_"]})

(* ---------- C04: canonical tables, agreeing query paths, agreeing copies ---------- *)
Unperm(u, order) == [i \in DOMAIN u |-> u[CHOOSE j \in DOMAIN order : order[j] = i]]
DistinctCols(eqs) == LET RECURSIVE F(_, _) F(i, acc) == IF i > Len(eqs) THEN acc ELSE F(i + 1, IF eqs[i] = i THEN Append(acc, i) ELSE acc)
                     IN F(1, <<>>)
Proj(t, eqs, order) == LET D == DistinctCols(eqs) IN [j \in DOMAIN order |-> t[D[order[j]]]]
Pattern(t, eqs) == \A i \in DOMAIN eqs : t[i] = t[eqs[i]]
CopyRows(st, c) == ToSet(st.phys.cp[c.field])
Plain(c) == c.eqs = <<>>
Base(st, r, age, scope) ==
  LET cs == {i \in DOMAIN Copies : Copies[i].rel = r /\ Copies[i].age = age /\ Copies[i].scope = scope /\ Plain(Copies[i]) /\ ~Copies[i].isType}
  IN IF cs = {} THEN {} ELSE LET c == Copies[CHOOSE i \in cs : \A j \in cs : i <= j] IN { Unperm(u, c.order) : u \in CopyRows(st, c) }
Scopes(r) == {Copies[i].scope : i \in {i \in DOMAIN Copies : Copies[i].rel = r /\ ~Copies[i].isType}}
PublicScope(r) == IF "all" \in Scopes(r) THEN "all" ELSE "plain"
OwnScope(r) == IF "own" \in Scopes(r) THEN "own" ELSE "plain"

DupTuples(sq) == { t \in ToSet(sq) : Cardinality({i \in DOMAIN sq : sq[i] = t}) > 1 }
\* every tuple of D is an own tuple of one age and, in the other age, only an inherited one
InheritedOnly(st, r, D) ==
  /\ "all" \in Scopes(r)
  /\ \A t \in D :
        \/ t \in Base(st, r, "new", "own") /\ t \in Base(st, r, "old", "all") \ Base(st, r, "old", "own")
        \/ t \in Base(st, r, "old", "own") /\ t \in Base(st, r, "new", "all") \ Base(st, r, "new", "own")

CopiesBad(st) ==
  LET O == Obs(st) IN
  UNION { LET c == Copies[i] IN
          IF c.isType THEN {}
          ELSE IF Plain(c)
               THEN (IF { Unperm(u, c.order) : u \in CopyRows(st, c) } = Base(st, c.rel, c.age, c.scope) THEN {}
                     ELSE {"index copy " \o c.field \o " disagrees with the other column orders"})
               ELSE (IF CopyRows(st, c) = { Proj(t, c.eqs, c.order) : t \in { t \in Base(st, c.rel, c.age, c.scope) : Pattern(t, c.eqs) } } THEN {}
                     ELSE {"diagonal copy " \o c.field \o " is not the restriction of the relation to its pattern"})
        : i \in DOMAIN Copies }
  \cup UNION { UNION { (IF Base(st, r, "new", s) \cap Base(st, r, "old", s) = {} THEN {}
                         ELSE IF s = "all" /\ InheritedOnly(st, r, Base(st, r, "new", s) \cap Base(st, r, "old", s))
                              THEN {"a tuple of " \o r \o " is own in one age and inherited in the other"}
                              ELSE {"a tuple of " \o r \o " is both new and old"}) : s \in Scopes(r) }
               \cup (IF Base(st, r, "new", PublicScope(r)) \cup Base(st, r, "old", PublicScope(r)) = O.tup[r] THEN {}
                     ELSE {"iter_" \o r \o " disagrees with the index copies"})
               \cup (IF Base(st, r, "new", OwnScope(r)) \cup Base(st, r, "old", OwnScope(r)) \subseteq O.tup[r] THEN {}
                     ELSE {"own tuples of " \o r \o " are not visible"})
             : r \in Rels }
  \cup UNION { LET e == ElIdx[i]
                   rows == ToSet(st.phys.ei[e.field])
                   own == Base(st, e.rel, "new", OwnScope(e.rel)) \cup Base(st, e.rel, "old", OwnScope(e.rel))
               IN IF \A t \in own : \A cI \in ToSet(e.cols) : (<<t[cI]>> \o t) \in rows THEN {}
                  ELSE {"per-element row list " \o e.field \o " misses a row"}
             : i \in DOMAIN ElIdx }
  \cup UNION { LET tn == { u[1] : u \in UNION { CopyRows(st, Copies[i]) : i \in {i \in DOMAIN Copies : Copies[i].isType /\ Copies[i].rel = T /\ Copies[i].age = "new"} } }
                   tl == { u[1] : u \in UNION { CopyRows(st, Copies[i]) : i \in {i \in DOMAIN Copies : Copies[i].isType /\ Copies[i].rel = T /\ Copies[i].age = "old"} } }
               IN (IF tn \cap tl = {} /\ tn \cup tl = ORoots(O)[T] THEN {} ELSE {"element sets of " \o T \o " are not one root per class"})
             : T \in Types }

QueriesBad(st, rels) ==
  LET O == Obs(st) IN
  UNION { IF ~st.qfull[r] THEN {}
          ELSE LET q == ToSet(st.q[r])
                   n == Len(Arity[r])
               IN IF r \in Funcs
                  THEN \* while a close is running a function may still be multi-valued (functionality is a
                       \* rule like the others): evaluation must return one of the values and be defined
                       \* wherever the graph has a tuple
                       (IF /\ \A t \in q : CanonBy(O, r, t) \in OTup(O, r)
                           /\ \A u \in O.tup[r] : CanonBy(O, r, u) # u \/ \E t \in q : \A i \in 1..(n - 1) : t[i] = u[i]
                           /\ \A t1, t2 \in q : (\A i \in 1..(n - 1) : t1[i] = t2[i]) => t1 = t2
                           /\ \A t \in q : \A i \in 1..(n - 1) : \A x \in OIds(O, Arity[r][i]) :
                                 O.rep[Arity[r][i]][x] = O.rep[Arity[r][i]][t[i]] => [t EXCEPT ![i] = x] \in q
                        THEN {} ELSE {"evaluating " \o r \o " disagrees with iter_" \o r})
                  ELSE (IF /\ \A t \in q : CanonBy(O, r, t) \in OTup(O, r)
                           /\ \A u \in O.tup[r] : u \in q \/ CanonBy(O, r, u) # u
                           /\ \A t \in q : \A i \in DOMAIN t : \A x \in OIds(O, Arity[r][i]) :
                                 O.rep[Arity[r][i]][x] = O.rep[Arity[r][i]][t[i]] => [t EXCEPT ![i] = x] \in q
                        THEN {} ELSE {"the point query of " \o r \o " disagrees with iter_" \o r \o " or is not invariant under equal arguments"})
        : r \in rels }

CanonBad(st) ==
  LET O == Obs(st) IN
  (IF \A r \in Rels : \A t \in O.tup[r] : CanonBy(O, r, t) = t THEN {} ELSE {"an iterator yields a non-canonical element"})
  \cup UNION { IF NoDupSeq(st.tup[r]) THEN {}
               ELSE IF InheritedOnly(st, r, DupTuples(st.tup[r])) THEN {"iter_" \o r \o " yields an own tuple again as an inherited tuple of the other age"}
               ELSE {"iter_" \o r \o " yields a tuple twice"} : r \in Rels }
  \cup (IF \A T \in Types : NoDupSeq(st.it[T]) /\ ToSet(st.it[T]) = ORoots(O)[T] THEN {} ELSE {"iter_<type> is not exactly one representative per class"})
  \cup QueriesBad(st, Rels)
  \cup CopiesBad(st)

(* ---------- C15: enum elements destructure ---------- *)
EnumBad(st) ==
  IF ~st.cased THEN {} ELSE
  LET O == Obs(st) IN
  UNION { LET rows == ToSet(st.cases[T])
              one == ToSet(st.case1[T])
              \* the application of the case equals the element (which may be a handle that lost a merge)
              ok(row) == row.ctor \in Ctors[T] /\ CanonBy(O, row.ctor, row.args \o <<row.el>>) \in { CanonBy(O, row.ctor, u) : u \in O.tup[row.ctor] }
          IN (IF \A e \in OIds(O, T) : \E row \in one : row.el = e /\ ok(row) THEN {} ELSE {"an element of enum " \o T \o " has no constructor case"})
             \cup (IF \A row \in rows : ok(row) THEN {} ELSE {"a case of enum " \o T \o " is not a constructor tuple of the element"})
             \cup (IF \A c \in Ctors[T] : \A u \in OTup(O, c) : \E row \in rows :
                        row.ctor = c /\ O.rep[T][row.el] = u[Len(u)] /\ CanonBy(O, c, row.args \o <<row.el>>) = u
                   THEN {} ELSE {"_cases misses a constructor tuple"})
        : T \in EnumTypes }

(* ---------- mutators (C05) ---------- *)
SamePartitionPlus(P, O, T, a, b) ==  \* O's partition of T = P's partition with the classes of a and b merged
  \A i, j \in OIds(O, T) :
     (O.rep[T][i] = O.rep[T][j]) <=>
        (i \in OIds(P, T) /\ j \in OIds(P, T) /\
           (\/ P.rep[T][i] = P.rep[T][j]
            \/ (a >= 0 /\ P.rep[T][i] = P.rep[T][a] /\ P.rep[T][j] = P.rep[T][b])
            \/ (a >= 0 /\ P.rep[T][i] = P.rep[T][b] /\ P.rep[T][j] = P.rep[T][a])))
        \/ i = j
Unchanged(P, O, exceptRels, exceptTypes) ==
  /\ \A r \in Rels \ exceptRels : O.tup[r] = P.tup[r]
  /\ \A T \in Types \ exceptTypes : O.cnt[T] = P.cnt[T] /\ SamePartitionPlus(P, O, T, -1, -1)

C5(w) == [prop |-> "C05", what |-> w]
NewBad(e) ==
  LET P == prev O == Obs(e.st) T == e.ty IN
  (IF e.ret = P.cnt[T] /\ O.cnt[T] = P.cnt[T] + 1 /\ O.rep[T][e.ret] = e.ret /\ SamePartitionPlus(P, O, T, -1, -1)
   THEN {} ELSE {C5("new_ did not return a fresh element distinct from all others")})
  \cup (IF Unchanged(P, O, {}, {T}) THEN {} ELSE {C5("new_ changed unrelated state")})
  \cup (IF e.ret \in ToSet(e.st.it[T]) THEN {} ELSE {C5("new element not reported by iter_<type>")})

InsertBad(e) ==
  LET P == prev O == Obs(e.st) r == e.rel
      ct == [i \in DOMAIN e.args |-> P.rep[Arity[r][i]][e.args[i]]]
  IN IF eqSince
     THEN (IF \A t \in O.tup[r] : CanonBy(O, r, t) \in { CanonBy(O, r, u) : u \in P.tup[r] \cup {e.args} } THEN {}
           ELSE {C5("insert_ made an unrelated tuple appear")})
          \cup (IF Unchanged(P, O, {r}, {}) THEN {} ELSE {C5("insert_ changed unrelated state")})
     ELSE (IF O.tup[r] = P.tup[r] \cup {ct} THEN {} ELSE {C5("inserted tuple not reported exactly (iterator)")})
          \* the property speaks about the tuple that was passed to insert_: it is reported once (a duplicate of
          \* some other tuple is C04's business, checked at observation points and returns)
          \cup (IF Cardinality({i \in DOMAIN e.st.tup[r] : e.st.tup[r][i] = ct}) <= 1 THEN {}
                ELSE {C5("inserted tuple reported twice")})
          \cup { C5(w) : w \in QueriesBad(e.st, {r}) }
          \cup (IF Unchanged(P, O, {r}, {}) THEN {} ELSE {C5("insert_ changed unrelated state")})

DefineBad(e) ==
  LET P == prev O == Obs(e.st) f == e.rel RT == ResT(f)
      ct == [i \in DOMAIN e.args |-> P.rep[Arity[f][i]][e.args[i]]]
      ex == { t \in P.tup[f] : \A i \in DOMAIN ct : t[i] = ct[i] }
  IN IF eqSince THEN (IF Unchanged(P, O, {f}, {RT}) THEN {} ELSE {C5("define_ changed unrelated state")})
     ELSE IF ex # {}
     THEN (IF \E t \in ex : O.rep[RT][e.ret] = O.rep[RT][t[Len(t)]] THEN {} ELSE {C5("define_ did not return the existing value")})
          \cup (IF O.tup[f] = P.tup[f] /\ O.cnt[RT] = P.cnt[RT] /\ Unchanged(P, O, {}, {}) THEN {} ELSE {C5("define_ on a defined term changed the model")})
     ELSE (IF e.ret = P.cnt[RT] /\ O.cnt[RT] = P.cnt[RT] + 1 /\ O.rep[RT][e.ret] = e.ret /\ SamePartitionPlus(P, O, RT, -1, -1)
           THEN {} ELSE {C5("define_ did not return a fresh element")})
          \cup (IF O.tup[f] = P.tup[f] \cup {ct \o <<e.ret>>} THEN {} ELSE {C5("define_ did not record exactly the graph tuple")})
          \cup { C5(w) : w \in QueriesBad(e.st, {f}) }
          \cup (IF Unchanged(P, O, {f}, {RT}) THEN {} ELSE {C5("define_ changed unrelated state")})

EquateBad(e) ==
  LET P == prev O == Obs(e.st) T == e.ty IN
  (IF O.cnt[T] = P.cnt[T] /\ SamePartitionPlus(P, O, T, e.a, e.b) THEN {} ELSE {C5("are_equal_ is not exactly the equivalence generated by the equate_ calls")})
  \cup (IF \A T2 \in Types \ {T} : O.cnt[T2] = P.cnt[T2] /\ SamePartitionPlus(P, O, T2, -1, -1) THEN {} ELSE {C5("equate_ changed another type")})

(* ---------- closes ---------- *)
\* the reference after an observation is absorbed: everything asserted so far plus what was observed
Absorb(R, O) == PresUnion([els |-> [T \in Types |-> {G(i) : i \in OIds(O, T)}], eq |-> R.eq, tup |-> R.tup], OfObserved(O))
GensOf(O) == [T \in Types |-> OIds(O, T)]

ObsBad(e) ==
  LET O == Obs(e.st) IN
  (IF chase.done THEN { [prop |-> "C07", what |-> "at a condition evaluation: " \o w] : w \in SoundBad(chase.nf, O, Phi(chase.nf, O, gens)) } ELSE {})
  \cup { [prop |-> "C04", what |-> "at a condition evaluation: " \o w] : w \in CanonBad(e.st) }
  \cup (IF HasDefs \/ \A T \in Types : O.cnt[T] = cnt0[T] THEN {} ELSE {[prop |-> "C06", what |-> "element ids allocated during close() of a theory without `!`"]})

RetBad(e) ==
  LET O == Obs(e.st)
      P == IF chase.done THEN Phi(chase.nf, O, gens) ELSE <<>>
  IN IF e.ret
     THEN \* early return: the state must be the one of the last condition evaluation, which was true
          (IF lastObs.k >= 0 /\ lastObs.cond /\ lastObs.O = O THEN {} ELSE {[prop |-> "C07", what |-> "close_until returned true in a state where the condition was not evaluated to true"]})
          \cup (IF chase.done THEN { [prop |-> "C07", what |-> "at an early return: " \o w] : w \in SoundBad(chase.nf, O, P) } ELSE {})
     ELSE (IF e.raw \/ (lastObs.k >= 0 /\ ~lastObs.cond /\ lastObs.O = O) THEN {} ELSE {[prop |-> "C07", what |-> "close_until returned false although the condition held / state changed after the last evaluation"]})
          \cup { [prop |-> "C01", what |-> "closed model violates stage " \o ToString(u[1]) \o " (" \o u[2] \o ")"] : u \in Unsatisfied(O) }
          \cup (IF chase.done THEN { [prop |-> "C01", what |-> w] : w \in CompleteBad(chase.nf, O, P) } ELSE {})
          \cup (IF chase.done THEN { [prop |-> "C02", what |-> w] : w \in SoundBad(chase.nf, O, P) } ELSE {})
          \cup { [prop |-> "C04", what |-> w] : w \in CanonBad(e.st) }
          \cup { [prop |-> "C15", what |-> w] : w \in EnumBad(e.st) }
          \cup (IF HasDefs \/ (\A T \in Types : O.cnt[T] = cnt0[T] /\ Classes(O, T) <= cls0[T]) THEN {}
                ELSE {[prop |-> "C06", what |-> "close() of a theory without `!` allocated ids or increased the number of elements"]})

RECURSIVE Prod(_, _, _)
Prod(O, cols, i) == IF i > Len(cols) THEN 1 ELSE O.cnt[cols[i]] * Prod(O, cols, i + 1)
RECURSIVE SumOver(_, _)
SumOver(f, S) == IF S = {} THEN 0 ELSE LET x == CHOOSE x \in S : TRUE IN f[x] + SumOver(f, S \ {x})
IterBound(O) == SumOver([r \in Rels |-> Prod(O, Arity[r], 1)], Rels) + SumOver([T \in Types |-> O.cnt[T]], Types) + 2

(* ---------- C03 / C07 / C17: histories of one family reach the same model ---------- *)
\* members of a family assert the same facts and equalities about the same caller-created elements;
\* their final models must be isomorphic by a map fixing those elements
FamBad(e) ==
  LET O == Obs(e.st)
      prop == IF e.tag = "fam:C07" THEN "C07" ELSE IF e.tag = "fam:C17" THEN "C17" ELSE "C03"
  IN IF ~famFirst.set \/ famFirst.fam # e.fam \/ famFirst.gens # callers THEN {}
     ELSE LET P == Phi(famFirst.nf, O, famFirst.gens) IN
          { [prop |-> prop, what |-> "differs from the first history of its family: " \o w] :
              w \in CompleteBad(famFirst.nf, O, P) \cup SoundBad(famFirst.nf, O, P) }
RecloseBad(e) == IF e.tag = "reclose" /\ ~e.ret /\ Obs(e.st) # prev
                 THEN {[prop |-> "C03", what |-> "close() on a closed model changed it"]} ELSE {}
IsFamTag(t) == t \in {"fam:C03", "fam:C07", "fam:C17"}

Init == /\ l = 1 /\ ref = EmptyPres /\ prev = EmptyObs /\ eqSince = FALSE
        /\ chase = [nf |-> NF(EmptyPres), done |-> TRUE] /\ gens = [T \in Types |-> {}]
        /\ cnt0 = [T \in Types |-> 0] /\ cls0 = [T \in Types |-> 0]
        /\ lastObs = [k |-> -1, cond |-> FALSE, O |-> EmptyObs] /\ viol = {}
        /\ stats = [closes |-> 0, inconclusive |-> 0, obs |-> 0, histories |-> 0, budget |-> 0, famCompared |-> 0, famSkipped |-> 0]
        /\ callers = [T \in Types |-> {}]
        /\ famFirst = [fam |-> -1, set |-> FALSE, nf |-> NF(EmptyPres), gens |-> [T \in Types |-> {}]]

Tag(e, S) == { [prop |-> v.prop, what |-> v.what, line |-> l, id |-> e.id] : v \in S }
\* at most 5 records per distinct (property, message): many instances of one (possibly known) finding must
\* not crowd out a different violation later in the same trace
AddViol(e, S) == viol \cup { v \in Tag(e, S) : Cardinality({ w \in viol : w.prop = v.prop /\ w.what = v.what }) < 5 }

Step ==
  /\ l <= Len(Rec) /\ l' = l + 1
  /\ LET e == Rec[l] IN
     CASE e.ev = "reset" ->
            /\ ref' = EmptyPres /\ prev' = Obs(e.st) /\ eqSince' = FALSE
            /\ stats' = [stats EXCEPT !.histories = @ + 1]
            /\ callers' = [T \in Types |-> {}]
            /\ famFirst' = IF e.fam = famFirst.fam THEN famFirst ELSE [famFirst EXCEPT !.fam = e.fam, !.set = FALSE]
            /\ UNCHANGED <<chase, gens, cnt0, cls0, lastObs, viol>>
       [] e.ev \in {"panic", "budget"} ->
            \* "budget": the driver gave up after e.obs evaluations of the condition.  Without `!` every
            \* iteration that does not return adds a tuple or merges two classes, so a model with T possible
            \* tuples and E elements admits at most T + E + 2 evaluations: more is non-termination (C06)
            /\ viol' = IF e.ev = "panic" THEN AddViol(e, {[prop |-> "PANIC", what |-> "panic: " \o e.msg]})
                       ELSE IF ~HasDefs /\ e.obs > IterBound(lastObs.O)
                            THEN AddViol(e, {[prop |-> "C06", what |-> "close() of a theory without `!` did not terminate within the number of iterations a model of this size admits"]})
                            ELSE viol
            /\ stats' = IF e.ev = "budget" THEN [stats EXCEPT !.budget = @ + 1] ELSE stats
            /\ UNCHANGED <<ref, prev, eqSince, chase, gens, cnt0, cls0, lastObs, callers, famFirst>>
       [] e.ev = "new" ->
            /\ viol' = AddViol(e, NewBad(e) \cup DumpConsistent(e.st))
            /\ ref' = [ref EXCEPT !.els[e.ty] = @ \cup {G(e.ret)}]
            /\ prev' = Obs(e.st)
            /\ callers' = [callers EXCEPT ![e.ty] = @ \cup {e.ret}]
            /\ UNCHANGED <<eqSince, chase, gens, cnt0, cls0, lastObs, stats, famFirst>>
       [] e.ev = "insert" ->
            /\ viol' = AddViol(e, InsertBad(e) \cup DumpConsistent(e.st))
            /\ ref' = [ref EXCEPT !.tup = @ \cup {<<e.rel, GT(e.args)>>}]
            /\ prev' = Obs(e.st)
            /\ UNCHANGED <<eqSince, chase, gens, cnt0, cls0, lastObs, stats, callers, famFirst>>
       [] e.ev \in {"define", "new_enum"} ->
            LET f == IF e.ev = "define" THEN e.rel ELSE e.ctor
                e2 == [rel |-> f, args |-> e.args, ret |-> e.ret, st |-> e.st] IN
            /\ viol' = AddViol(e, DefineBad(e2) \cup DumpConsistent(e.st)
                                  \cup (IF e.ev = "new_enum" /\ ~eqSince THEN { [prop |-> "C15", what |-> w] : w \in EnumBad(e.st) } ELSE {}))
            /\ ref' = [ref EXCEPT !.els[ResT(f)] = @ \cup {G(e.ret)}, !.tup = @ \cup {<<f, GT(e.args \o <<e.ret>>)>>}]
            /\ prev' = Obs(e.st)
            /\ callers' = [callers EXCEPT ![ResT(f)] = @ \cup {e.ret}]
            /\ UNCHANGED <<eqSince, chase, gens, cnt0, cls0, lastObs, stats, famFirst>>
       [] e.ev = "equate" ->
            /\ viol' = AddViol(e, EquateBad(e) \cup DumpConsistent(e.st))
            /\ ref' = [ref EXCEPT !.eq = @ \cup {<<e.ty, G(e.a), G(e.b)>>}]
            /\ prev' = Obs(e.st) /\ eqSince' = TRUE
            /\ UNCHANGED <<chase, gens, cnt0, cls0, lastObs, stats, callers, famFirst>>
       [] e.ev = "close_begin" ->
            /\ chase' = LET c == ChaseN(ref, 60) IN [nf |-> NF(c.R), done |-> c.done]
            /\ gens' = GensOf(prev)
            /\ cnt0' = prev.cnt /\ cls0' = [T \in Types |-> Classes(prev, T)]
            /\ lastObs' = [k |-> -1, cond |-> FALSE, O |-> EmptyObs]
            /\ UNCHANGED <<ref, prev, eqSince, viol, stats, callers, famFirst>>
       [] e.ev = "obs" ->
            /\ viol' = AddViol(e, ObsBad(e) \cup DumpConsistent(e.st))
            /\ lastObs' = [k |-> e.k, cond |-> e.cond, O |-> Obs(e.st)]
            /\ stats' = [stats EXCEPT !.obs = @ + 1]
            /\ UNCHANGED <<ref, prev, eqSince, chase, gens, cnt0, cls0, callers, famFirst>>
       [] e.ev = "close_ret" ->
            LET isFam == IsFamTag(e.tag) /\ ~e.ret
                first == isFam /\ ~(famFirst.set /\ famFirst.fam = e.fam)
                compared == isFam /\ ~first /\ famFirst.gens = callers IN
            /\ viol' = AddViol(e, RetBad(e) \cup DumpConsistent(e.st) \cup RecloseBad(e) \cup (IF isFam THEN FamBad(e) ELSE {}))
            /\ ref' = Absorb(ref, Obs(e.st))
            /\ prev' = Obs(e.st) /\ eqSince' = FALSE
            /\ famFirst' = IF first THEN [fam |-> e.fam, set |-> TRUE, nf |-> NF(OfObserved(Obs(e.st))), gens |-> callers] ELSE famFirst
            /\ stats' = [stats EXCEPT !.closes = @ + 1, !.inconclusive = @ + (IF chase.done THEN 0 ELSE 1),
                                      !.famCompared = @ + (IF compared THEN 1 ELSE 0),
                                      !.famSkipped = @ + (IF isFam /\ ~first /\ ~compared THEN 1 ELSE 0)]
            /\ UNCHANGED <<chase, gens, cnt0, cls0, lastObs, callers>>
Spec == Init /\ [][Step]_vars
Report == (l = Len(Rec) + 1) => PrintT(<<"RESULT", ToJson([viol |-> viol, stats |-> stats, events |-> Len(Rec)])>>)
AllConsumed == TLCGet("stats").diameter = Len(Rec) + 1 \/ PrintT(<<"UNMATCHED", TLCGet("stats").diameter>>)
=============================================================================
