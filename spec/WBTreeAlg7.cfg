SPECIFICATION Spec
CONSTANT N = 7
INVARIANTS Inv UnionOk DiffOk
PROPERTY Refines
CHECK_DEADLOCK FALSE
