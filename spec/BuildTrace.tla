------------------------------ MODULE BuildTrace ------------------------------
(***************************************************************************)
(* Trace validation for C12: edit / build histories executed on the real   *)
(* eqlog CLI (checks/buildlib.py; builds killed before their k-th          *)
(* mutation through the verif_fs_point hook, rustc failures and kills      *)
(* through a stand-in rustc).  Each build event carries the exit status,   *)
(* the log of file-system mutations, and for every output file the version *)
(* whose clean build has identical bytes (or "none" / "garbage").          *)
(* Ref (IOEnv.REF) holds the same abstraction of the clean builds:         *)
(*   Ref.canon[file][version].                                             *)
(* Monitor style: violations are collected, nothing blocks.                *)
(***************************************************************************)
EXTENDS Integers, Sequences, FiniteSets, TLC, Json, IOUtils
Rec == ndJsonDeserialize(IOEnv.TRACE)
Ref == JsonDeserialize(IOEnv.REF)
VARIABLES l, src, okSrc, viol, stats
vars == <<l, src, okSrc, viol, stats>>
Files == DOMAIN Ref.canon
Flat(e) == [f \in Files |-> e.fs[f]]
V(e, what) == [prop |-> "C12", line |-> l, id |-> e.id, what |-> what]
BuildBad(e) ==
  LET obs == Flat(e) want == [f \in Files |-> Ref.canon[f][src]] IN
  IF e.rc # 0 THEN {}
  ELSE (IF \A f \in Files : want[f] = "none" \/ obs[f] = want[f] THEN {}
        ELSE {"a successful build left a generated file that differs from a clean build of the current source"})
       \cup (IF \A f \in Files : want[f] # "none" \/ obs[f] = "none" THEN {}
             ELSE {"a successful build left files of a component that the current source does not have"})
       \cup (IF e.others = <<>> THEN {} ELSE {"a successful build left unexpected extra files"})
       \cup (IF okSrc = src /\ (e.muts # <<>> \/ e.rewritten # <<>>) THEN {"output rewritten although nothing changed since the last successful build"} ELSE {})
Init == l = 1 /\ src = "none" /\ okSrc = "none" /\ viol = {} /\ stats = [builds |-> 0, ok |-> 0, crashed |-> 0, failed |-> 0, noop |-> 0]
Step ==
  /\ l <= Len(Rec) /\ l' = l + 1
  /\ LET e == Rec[l] IN
     CASE e.ev = "reset" -> src' = "none" /\ okSrc' = "none" /\ UNCHANGED <<viol, stats>>
       [] e.ev = "edit" -> src' = e.v /\ okSrc' = "none" /\ UNCHANGED <<viol, stats>>
       [] e.ev = "build" ->
            /\ viol' = IF Cardinality(viol) < 20 THEN viol \cup {V(e, w) : w \in BuildBad(e)} ELSE viol
            /\ okSrc' = IF e.rc = 0 THEN src ELSE "none"
            /\ src' = src
            /\ stats' = [stats EXCEPT !.builds = @ + 1, !.ok = @ + (IF e.rc = 0 THEN 1 ELSE 0),
                                      !.crashed = @ + (IF e.rc \notin {0, 1} THEN 1 ELSE 0),
                                      !.failed = @ + (IF e.rc = 1 THEN 1 ELSE 0),
                                      !.noop = @ + (IF e.rc = 0 /\ e.muts = <<>> THEN 1 ELSE 0)]
Spec == Init /\ [][Step]_vars
Report == (l = Len(Rec) + 1) => PrintT(<<"RESULT", ToJson([viol |-> viol, stats |-> stats, events |-> Len(Rec)])>>)
AllConsumed == TLCGet("stats").diameter = Len(Rec) + 1 \/ PrintT(<<"UNMATCHED", TLCGet("stats").diameter>>)
=============================================================================
