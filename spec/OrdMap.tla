------------------------------- MODULE OrdMap -------------------------------
(***************************************************************************)
(* The ordered-map contract of OrdMapOps as a state machine: NH handles,   *)
(* every operation enabled in every state.  TLC explores it to check the   *)
(* laws below and (MCOrdMap) to generate operation sequences that are      *)
(* replayed against the real WBTreeMap.                                    *)
(***************************************************************************)
EXTENDS OrdMapOps
(* The state machine: every operation is enabled in every state. *)
CONSTANTS Keys, NH, MaxOps
VARIABLES maps, hist
vars == <<maps, hist>>
Handles == 1..NH

Op(name, h, h2, h3, k, v) == [op |-> name, h |-> h, h2 |-> h2, h3 |-> h3, k |-> k, v |-> v]
NextVal == Len(hist) + 1            \* every write carries a fresh, recognisable value
KeyOps == {"insert", "remove", "get", "get_mut", "entry_or_insert", "entry_or_insert_with",
           "entry_toggle", "entry_set", "iter_mut_key"}
Ops == {Op(n, h, 0, 0, k, NextVal) : n \in KeyOps, h \in Handles, k \in Keys}
       \cup {Op(n, h, 0, 0, 0, NextVal) : n \in {"iter_mut_add", "clear"}, h \in Handles}
       \cup {Op("clone", h, h2, 0, 0, 0) : h \in Handles, h2 \in Handles}
       \cup {Op(n, h, h2, h3, 0, 0) : n \in {"union", "diff"}, h \in Handles, h2 \in Handles, h3 \in Handles}

Init == maps = [h \in Handles |-> EmptyMap] /\ hist = <<>>
Do(o) == maps' = Apply(maps, o) /\ hist' = Append(hist, o)
Next == Len(hist) < MaxOps /\ \E o \in Ops : Do(o)
Spec == Init /\ [][Next]_vars

TypeOK == \A h \in Handles : DOMAIN maps[h] \subseteq Keys /\ \A k \in DOMAIN maps[h] : maps[h][k] \in 0..(ModV-1)
\* laws every correct implementation must share with the contract (sanity of the contract itself)
Laws == \A a, b \in Handles :
          /\ DOMAIN UnionM(maps[a], maps[b]) = DOMAIN maps[a] \cup DOMAIN maps[b]
          /\ DOMAIN DiffM(maps[a], maps[b]) \subseteq DOMAIN maps[a]
          /\ DOMAIN maps[a] \ DOMAIN maps[b] \subseteq DOMAIN DiffM(maps[a], maps[b])
          /\ DiffM(maps[a], EmptyMap) = maps[a] /\ UnionM(maps[a], EmptyMap) = maps[a] /\ UnionM(EmptyMap, maps[a]) = maps[a]
\* only the destination changes
Independence == [][\A o \in Ops : (hist' = Append(hist, o)) => \A h \in Handles \ {o.h} : maps'[h] = maps[h]]_vars
=============================================================================
