------------------------------ MODULE UnionFind ------------------------------
(***************************************************************************)
(* Design check and behaviour generator for UnionFindOps: a state machine  *)
(* over one Unification value (forest `p`, abstract `rt`) and one clone    *)
(* taken at some point (`cp`, `crt`).  TLC checks that the transcribed     *)
(* forest algorithm refines the contract (every call sequence up to MaxOps *)
(* on up to MaxN elements) and emits every sequence for replay on the real *)
(* type.                                                                   *)
(***************************************************************************)
EXTENDS UnionFindOps, Json
CONSTANTS MaxN, MaxOps
VARIABLES p, rt, cp, crt, hist
vars == <<p, rt, cp, crt, hist>>
Op(name, a, b) == [op |-> name, a |-> a, b |-> b]
Init == p = <<>> /\ rt = <<>> /\ cp = <<>> /\ crt = <<>> /\ hist = <<>>
GrowA(n) == /\ n > Len(p) /\ n <= MaxN
            /\ p' = GrowForest(p, n) /\ rt' = Grow(rt, n) /\ hist' = Append(hist, Op("grow", n, 0)) /\ UNCHANGED <<cp, crt>>
RootA(e) == /\ e \in Els(p) /\ p' = RootMut(p, e).p /\ hist' = Append(hist, Op("root", e, 0)) /\ UNCHANGED <<rt, cp, crt>>
UnionA(l, r) == /\ l \in Els(p) /\ r \in Els(p) /\ At(rt, l) = l /\ At(rt, r) = r
                /\ p' = UnionForest(p, l, r) /\ rt' = UnionInto(rt, l, r)
                /\ hist' = Append(hist, Op("union", l, r)) /\ UNCHANGED <<cp, crt>>
CloneA == /\ cp = <<>> /\ p # <<>> /\ cp' = p /\ crt' = rt /\ hist' = Append(hist, Op("clone", 0, 0)) /\ UNCHANGED <<p, rt>>
\* operations on the clone leave the original alone and vice versa
CRootA(e) == /\ e \in Els(cp) /\ cp' = RootMut(cp, e).p /\ hist' = Append(hist, Op("croot", e, 0)) /\ UNCHANGED <<p, rt, crt>>
CUnionA(l, r) == /\ l \in Els(cp) /\ r \in Els(cp) /\ At(crt, l) = l /\ At(crt, r) = r
                 /\ cp' = UnionForest(cp, l, r) /\ crt' = UnionInto(crt, l, r)
                 /\ hist' = Append(hist, Op("cunion", l, r)) /\ UNCHANGED <<p, rt>>
Next == /\ Len(hist) < MaxOps
        /\ \/ \E n \in 1..MaxN : GrowA(n)
           \/ \E e \in 0..(MaxN - 1) : RootA(e) \/ CRootA(e)
           \/ \E l, r \in 0..(MaxN - 1) : UnionA(l, r) \/ CUnionA(l, r)
           \/ CloneA
Spec == Init /\ [][Next]_vars

Refines == /\ Forest(p) /\ AbsOf(p) = rt /\ WellFormed(rt)
           /\ Forest(cp) /\ AbsOf(cp) = crt /\ WellFormed(crt)
\* root() returns the representative, is idempotent and changes no class
RootLaws == \A e \in Els(p) : LET r == RootMut(p, e) IN
              /\ r.r = At(rt, e) /\ AbsOf(r.p) = rt /\ RootMut(r.p, r.r).r = r.r
              /\ RootConst(p, e) = r.r
\* path halving never lengthens a path
Depth(q, e) == LET RECURSIVE D(_, _) D(x, k) == IF At(q, x) = x \/ k = 0 THEN 0 ELSE 1 + D(At(q, x), k - 1) IN D(e, Len(q))
Halving == \A e \in Els(p) : \A x \in Els(p) : Depth(RootMut(p, e).p, x) <= Depth(p, x)
View == <<p, rt, cp, crt, Len(hist)>>
Emit == Len(hist) < MaxOps \/ PrintT(<<"REPLAY", ToJson(hist)>>)
=============================================================================
