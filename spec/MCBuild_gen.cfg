SPECIFICATION Spec
CONSTANTS
  Versions <- MVersions
  Comps <- MComps
  HasComp <- MHasComp
  Comp <- MComp
  Mod <- MMod
  CompOrder <- MCompOrder
  ComponentMode = TRUE
  FixCompDigest = TRUE
  CleanStale = TRUE
  Workers = 1
  Sequential = TRUE
  MaxSteps = 3
INVARIANT Emit
CHECK_DEADLOCK FALSE
