------------------------------ MODULE SemiNaive ------------------------------
(***************************************************************************)
(* C16: the family of sub-rules emitted for one rule premise enumerates    *)
(* every match that involves a new tuple exactly once and no match whose   *)
(* tuples are all old.                                                     *)
(*                                                                         *)
(* Families is *extracted from the generated code* (tools/extract.py): for *)
(* each family its distinct premise atoms 1..natoms and, per member        *)
(* (sub-rule function), for each premise position the atom it matches and  *)
(* the age it reads it at - once as printed in the flat-rule comment       *)
(* (`reads`) and once as read off the new/old index fields bound in the    *)
(* function body (`body`).  A state is a family together with a labelling  *)
(* of its atoms' matched tuples as new or old; TLC visits all of them.     *)
(* Positions with the same atom necessarily match the same tuple and thus  *)
(* share a label.                                                          *)
(***************************************************************************)
EXTENDS Integers, Sequences, FiniteSets, TLC, Json, IOUtils
Families == JsonDeserialize(IOEnv.PLAN)
VARIABLES fam, lab
vars == <<fam, lab>>
Init == \E f \in DOMAIN Families : fam = f /\ lab \in [1..Families[f].natoms -> {"new", "old"}]
Next == UNCHANGED vars
Spec == Init /\ [][Next]_vars

Accepts(reads, lb) == \A i \in DOMAIN reads : reads[i][2] = "all" \/ reads[i][2] = lb[reads[i][1]]
SomeNew(lb) == \E a \in DOMAIN lb : lb[a] = "new"
Swap(lb) == [a \in DOMAIN lb |-> lb[IF a = 1 THEN 2 ELSE IF a = 2 THEN 1 ELSE a]]
F == Families[fam]
NAccepting(which(_)) == Cardinality({i \in DOMAIN F.members : Accepts(which(F.members[i]), lab)})
Comment(m) == m.reads
Body(m) == m.body

\* the property, on the plan printed in the comments and on the plan the bodies implement
ExactlyOnce ==
  IF F.natoms = 0 THEN TRUE
  ELSE IF F.sym
  THEN \* the implicit functionality rule: one member, symmetric in its two atoms
       /\ Len(F.members) = 1
       /\ (Accepts(F.members[1].reads, lab) \/ Accepts(F.members[1].reads, Swap(lab))) <=> SomeNew(lab)
       /\ (Accepts(F.members[1].body, lab) \/ Accepts(F.members[1].body, Swap(lab))) <=> SomeNew(lab)
  ELSE /\ NAccepting(Comment) = (IF SomeNew(lab) THEN 1 ELSE 0)
       /\ NAccepting(Body) = (IF SomeNew(lab) THEN 1 ELSE 0)
\* all members of a family have the same atoms and conclusions, and comment and body agree
SameShape == /\ \A i, j \in DOMAIN F.members : F.members[i].atoms = F.members[j].atoms /\ F.members[i].concl = F.members[j].concl
             /\ \A i \in DOMAIN F.members : F.members[i].reads = F.members[i].body
Report == PrintT(<<"FAMILY", ToJson([program |-> F.program, name |-> F.name])>>)
=============================================================================
