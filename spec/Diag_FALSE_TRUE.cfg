SPECIFICATION Spec
CONSTANTS
  MaxLen = 5
  KeepTerminators = FALSE
  EofFallback = TRUE
INVARIANTS NoPanic ContentOk RightLine
CHECK_DEADLOCK FALSE
