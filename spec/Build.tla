--------------------------------- MODULE Build ---------------------------------
(***************************************************************************)
(* The incremental build protocol of eqlog (eqlog/src/build.rs:            *)
(* process_file, read/remove/write_digest, compile_component_rlib) for one *)
(* theory file, properties C12 and C13.                                    *)
(*                                                                         *)
(* Files: the generated module, the theory digest (component builds: a     *)
(* file of its own; module builds: the last line of the module, so         *)
(* removing the digest removes the module), and per rule component its     *)
(* source, library and digest.  File contents are abstracted to content    *)
(* ids: Mod[v] for the module of version v, Comp[c][v] for the source of   *)
(* component c in version v (equal ids = identical bytes; the library and  *)
(* the component digest are functions of the component source).  Every     *)
(* file-system mutation of the code is one action, in code order; Crash    *)
(* can interrupt a build before any of them (a killed build), Rustc can    *)
(* fail after clobbering its output.  In Parallel mode the component stage *)
(* is a pool of workers each processing one component at a time, in any    *)
(* interleaving (rayon par_bridge).                                        *)
(*                                                                         *)
(* FixCompDigest = FALSE is the protocol before the repair of finding F3   *)
(* (the component digest is not invalidated before its source and library  *)
(* are overwritten).  CleanStale = FALSE: files of components that no      *)
(* longer exist are never removed (the code as it is).                     *)
(***************************************************************************)
EXTENDS Integers, Sequences, FiniteSets, TLC
CONSTANTS Versions,        \* source versions
          Comps,           \* all component names
          HasComp,         \* version |-> set of components (rules) of that version
          Comp,            \* component |-> version |-> content id of its source
          Mod,             \* version |-> content id of the module
          ComponentMode,   \* TRUE: component build, FALSE: module build
          FixCompDigest, CleanStale, Workers, MaxSteps,
          Sequential,      \* TRUE: components are taken in the order CompOrder (one worker thread)
          CompOrder        \* sequence of all components
None == "none"
Garbage == "garbage"
VARIABLES src, fs, pc, bv, todo, wk, lastOk, mutated, steps, hist, nmut
vars == <<src, fs, pc, bv, todo, wk, lastOk, mutated, steps, hist, nmut>>
view == <<src, fs, pc, bv, todo, wk, lastOk, mutated>>
\* fs = [tdig, mod, csrc: c -> id, crlib: c -> id, cdig: c -> id];  wk: component -> worker pc ("idle" when not being built)
EmptyFs == [tdig |-> None, mod |-> None, csrc |-> [c \in Comps |-> None], crlib |-> [c \in Comps |-> None], cdig |-> [c \in Comps |-> None]]
Clean(v) == [tdig |-> v, mod |-> Mod[v],
             csrc |-> [c \in Comps |-> IF ComponentMode /\ c \in HasComp[v] THEN Comp[c][v] ELSE None],
             crlib |-> [c \in Comps |-> IF ComponentMode /\ c \in HasComp[v] THEN Comp[c][v] ELSE None],
             cdig |-> [c \in Comps |-> IF ComponentMode /\ c \in HasComp[v] THEN Comp[c][v] ELSE None]]

Init == /\ src \in Versions /\ fs = EmptyFs /\ pc = "idle" /\ bv = None /\ todo = {} /\ wk = [c \in Comps |-> "idle"]
        /\ lastOk = FALSE /\ mutated = FALSE /\ steps = 0 /\ hist = <<>> /\ nmut = 0

Edit(v) == /\ pc = "idle" /\ v # src /\ steps < MaxSteps
           /\ src' = v /\ lastOk' = FALSE /\ steps' = steps + 1 /\ hist' = Append(hist, <<"edit", v>>)
           /\ UNCHANGED <<fs, pc, bv, todo, wk, mutated, nmut>>

\* process_file up to the digest comparison
Start == /\ pc = "idle" /\ steps < MaxSteps
         /\ bv' = src /\ steps' = steps + 1 /\ hist' = Append(hist, <<"build", src>>) /\ mutated' = FALSE /\ nmut' = 0
         /\ IF fs.tdig = src THEN pc' = "idle" /\ lastOk' = TRUE          \* digest matches: nothing to do
            ELSE pc' = "rm_tdig" /\ lastOk' = FALSE
         /\ UNCHANGED <<src, fs, todo, wk>>

Mut(from, to, newfs) == pc = from /\ pc' = to /\ fs' = newfs /\ mutated' = TRUE /\ nmut' = nmut + 1 /\ UNCHANGED <<src, bv, todo, wk, lastOk, steps, hist>>
\* remove_digest: in module builds the digest lives in the module file
RmTdig == Mut("rm_tdig", "w_mod", IF ComponentMode THEN [fs EXCEPT !.tdig = None] ELSE [fs EXCEPT !.tdig = None, !.mod = None])
WMod == /\ pc = "w_mod" /\ fs' = [fs EXCEPT !.mod = Mod[bv]] /\ mutated' = TRUE /\ nmut' = nmut + 1
        /\ pc' = IF ComponentMode THEN "comps" ELSE "w_tdig"
        /\ todo' = IF ComponentMode THEN HasComp[bv] ELSE {}
        /\ UNCHANGED <<src, bv, wk, lastOk, steps, hist>>

\* ---- component stage: a worker takes a component and runs compile_component_rlib on it ----
Busy == {c \in Comps : wk[c] # "idle"}
First(S) == CompOrder[CHOOSE i \in DOMAIN CompOrder : CompOrder[i] \in S /\ \A j \in DOMAIN CompOrder : CompOrder[j] \in S => i <= j]
Take(c) == /\ pc = "comps" /\ c \in todo /\ Cardinality(Busy) < Workers
           /\ (Sequential => c = First(todo))
           /\ todo' = todo \ {c}
           /\ wk' = [wk EXCEPT ![c] = IF fs.cdig[c] = Comp[c][bv] /\ fs.crlib[c] # None THEN "idle"      \* up to date: skipped
                                      ELSE IF FixCompDigest THEN "rm_cdig" ELSE "w_csrc"]
           /\ UNCHANGED <<src, fs, pc, bv, lastOk, mutated, steps, hist, nmut>>
CompMut(c, from, to, newfs) == /\ pc = "comps" /\ wk[c] = from /\ wk' = [wk EXCEPT ![c] = to] /\ fs' = newfs /\ mutated' = TRUE /\ nmut' = nmut + 1
                               /\ UNCHANGED <<src, pc, bv, todo, lastOk, steps, hist>>
RmCdig(c) == CompMut(c, "rm_cdig", "w_csrc", [fs EXCEPT !.cdig[c] = None])
WCsrc(c) == CompMut(c, "w_csrc", "rustc", [fs EXCEPT !.csrc[c] = Comp[c][bv]])
Rustc(c) == CompMut(c, "rustc", "w_cdig", [fs EXCEPT !.crlib[c] = Comp[c][bv]])
WCdig(c) == CompMut(c, "w_cdig", "idle", [fs EXCEPT !.cdig[c] = Comp[c][bv]])
\* rustc fails after clobbering its output: the build reports an error
RustcFail(c) == /\ pc = "comps" /\ wk[c] = "rustc"
                /\ fs' = [fs EXCEPT !.crlib[c] = Garbage] /\ mutated' = TRUE
                /\ pc' = "idle" /\ wk' = [x \in Comps |-> "idle"] /\ todo' = {}
                /\ hist' = Append(hist, <<"rustc_fail", c>>) /\ nmut' = nmut + 1
                /\ UNCHANGED <<src, bv, lastOk, steps>>
CompsDone == /\ pc = "comps" /\ todo = {} /\ Busy = {}
             /\ pc' = IF CleanStale THEN "clean" ELSE "w_tdig"
             /\ UNCHANGED <<src, fs, bv, todo, wk, lastOk, mutated, steps, hist, nmut>>
CleanStaleFiles == Mut("clean", "w_tdig",
                       [fs EXCEPT !.csrc = [c \in Comps |-> IF c \in HasComp[bv] THEN fs.csrc[c] ELSE None],
                                  !.crlib = [c \in Comps |-> IF c \in HasComp[bv] THEN fs.crlib[c] ELSE None],
                                  !.cdig = [c \in Comps |-> IF c \in HasComp[bv] THEN fs.cdig[c] ELSE None]])
WTdig == /\ pc = "w_tdig" /\ pc' = "idle" /\ fs' = [fs EXCEPT !.tdig = bv] /\ lastOk' = TRUE /\ mutated' = TRUE /\ nmut' = nmut + 1
         /\ UNCHANGED <<src, bv, todo, wk, steps, hist>>
\* the build is killed before its next mutation
Crash == /\ pc # "idle" /\ pc' = "idle" /\ wk' = [c \in Comps |-> "idle"] /\ todo' = {}
         /\ hist' = Append(hist, <<"crash", nmut>>)
         /\ UNCHANGED <<src, fs, bv, lastOk, mutated, steps, nmut>>

BuildStep == RmTdig \/ WMod \/ CompsDone \/ CleanStaleFiles \/ WTdig
             \/ \E c \in Comps : Take(c) \/ RmCdig(c) \/ WCsrc(c) \/ Rustc(c) \/ WCdig(c)
Next == (\E v \in Versions : Edit(v)) \/ Start \/ BuildStep \/ Crash \/ (\E c \in Comps : RustcFail(c))
Spec == Init /\ [][Next]_vars

(* ---------------- properties ---------------- *)
\* C12: a build that reports success leaves exactly what a clean build of the current source produces
\* (FreshCore: for the files of the current version; NoLeftovers: and nothing else)
FreshCore == (pc = "idle" /\ lastOk) =>
   /\ fs.tdig = src /\ fs.mod = Mod[src]
   /\ \A c \in Comps : (ComponentMode /\ c \in HasComp[src]) =>
         fs.csrc[c] = Comp[c][src] /\ fs.crlib[c] = Comp[c][src] /\ fs.cdig[c] = Comp[c][src]
NoLeftovers == (pc = "idle" /\ lastOk) => \A c \in Comps \ HasComp[src] : fs.csrc[c] = None /\ fs.crlib[c] = None /\ fs.cdig[c] = None
Fresh == FreshCore /\ NoLeftovers
\* C12, second sentence: a build of an unchanged, successfully built source mutates nothing
NoRewrite == [][(pc = "idle" /\ lastOk /\ pc' = "idle" /\ lastOk' /\ src' = src) => fs' = fs]_vars
\* C13 (design): what a successful build leaves does not depend on the order in which the workers ran
Deterministic == (pc = "idle" /\ lastOk) => \A c \in HasComp[src] : ComponentMode => fs.csrc[c] = Clean(src).csrc[c] /\ fs.crlib[c] = Clean(src).crlib[c]
=============================================================================
