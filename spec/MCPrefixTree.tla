---- MODULE MCPrefixTree ----
EXTENDS PrefixTree, Json
Emit == Len(hist) < MaxOps \/ PrintT(<<"REPLAY", ToJson(hist)>>)
====
