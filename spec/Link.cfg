SPECIFICATION Spec
INVARIANTS EnvIdentical EnvEverywhere SymbolsMatch SameRuleCode SameModuleRest
CHECK_DEADLOCK FALSE
