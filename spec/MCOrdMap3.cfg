SPECIFICATION Spec
CONSTANTS
  Keys = {0, 1}
  NH = 2
  MaxOps = 3
INVARIANTS TypeOK Laws Emit
PROPERTY Independence
CHECK_DEADLOCK FALSE
