---------------------------- MODULE PrefixTreeOps ----------------------------
(***************************************************************************)
(* Contract of the tuple containers PrefixTree0..PrefixTree9 of            *)
(* eqlog-runtime (property C08): a container of arity n is a set of        *)
(* n-tuples (sequences of naturals).  Every public method is an operation  *)
(* record o = [op, h, h2, h3, k, k2, t, sub, maps]; Result gives the       *)
(* integer result, ResultList the list result (prefix lookup / prefix      *)
(* iteration), Apply the family of sets afterwards.  Only the destination  *)
(* handle changes (clone independence).                                    *)
(***************************************************************************)
EXTENDS Integers, Sequences, FiniteSets, TLC

ToSet(s) == {s[i] : i \in DOMAIN s}
Cons(k, t) == <<k>> \o t
WithPrefix(S, k) == {t \in S : Len(t) > 0 /\ t[1] = k}
Tails(S, k) == {Tail(t) : t \in WithPrefix(S, k)}
Firsts(S) == {t[1] : t \in {u \in S : Len(u) > 0}}

\* strict lexicographic order on equal-length tuples
LexLess(a, b) == \E i \in DOMAIN a : a[i] < b[i] /\ \A j \in 1..(i-1) : a[j] = b[j]
SortedStrict(items) == \A i \in 1..(Len(items) - 1) : LexLess(items[i], items[i+1])

\* element-wise mapping; a map is [id: BOOLEAN, pairs: sequence of <<from, to>>]
MapDefined(m, x) == m.id \/ \E i \in DOMAIN m.pairs : m.pairs[i][1] = x
MapApply(m, x) == IF m.id THEN x
                  ELSE LET C == {m.pairs[i][2] : i \in {i \in DOMAIN m.pairs : m.pairs[i][1] = x}}
                       IN CHOOSE y \in C : \A z \in C : y <= z     \* the implementation takes the first
Mapped(S, maps) == { [i \in DOMAIN t |-> MapApply(maps[i], t[i])] :
                       t \in {u \in S : \A i \in DOMAIN u : MapDefined(maps[i], u[i])} }

\* n = arity of the family the operation acts on
Result(n, ss, o) ==
  LET S == ss[o.h] IN
  CASE o.op = "insert"   -> IF o.t \in S THEN 0 ELSE 1
    [] o.op = "remove"   -> IF o.t \in S THEN 1 ELSE 0
    [] o.op = "contains" -> IF o.t \in S THEN 1 ELSE 0
    [] o.op = "get"      -> IF n = 0 THEN -2 ELSE IF WithPrefix(S, o.k) = {} THEN -1 ELSE 1
    [] o.op = "restrictions" -> IF n < 2 THEN -2 ELSE Cardinality(Firsts(S))
    [] o.op = "restrictions_mut_insert" -> IF n < 2 THEN 0 ELSE 1
    [] o.op \in {"insert_restriction", "insert_restriction_from", "remove_restriction", "remove_restriction_from"} ->
           IF n = 0 THEN 0 ELSE 1
    [] o.op = "get_mut_insert" -> IF n < 2 THEN -2 ELSE IF WithPrefix(S, o.k) = {} THEN -1
                                  ELSE IF Cons(o.k, o.t) \in S THEN 0 ELSE 1
    [] OTHER -> 0

\* the list an operation returns, as a set (order is checked separately)
ResultSet(n, ss, o) ==
  LET S == ss[o.h] IN
  CASE o.op = "get" /\ n > 0 -> Tails(S, o.k)
    [] o.op = "restrictions" /\ n >= 2 -> {[k |-> k, items |-> Tails(S, k)] : k \in Firsts(S)}
    [] OTHER -> {}

SubOf(n, ss, o) == IF o.op \in {"insert_restriction_from", "remove_restriction_from"}
                   THEN Tails(ss[o.h2], o.k2) ELSE ToSet(o.sub)

Apply(n, ss, o) ==
  LET S == ss[o.h] IN
  CASE o.op = "insert" -> [ss EXCEPT ![o.h] = S \cup {o.t}]
    [] o.op = "remove" -> [ss EXCEPT ![o.h] = S \ {o.t}]
    [] o.op = "clear"  -> [ss EXCEPT ![o.h] = {}]
    [] o.op = "clone"  -> [ss EXCEPT ![o.h] = ss[o.h2]]
    [] o.op = "union"  -> [ss EXCEPT ![o.h] = ss[o.h2] \cup ss[o.h3]]
    [] o.op = "diff"   -> [ss EXCEPT ![o.h] = ss[o.h2] \ ss[o.h3]]
    [] o.op \in {"insert_restriction", "insert_restriction_from"} /\ n > 0 ->
          [ss EXCEPT ![o.h] = S \cup {Cons(o.k, t) : t \in SubOf(n, ss, o)}]
    [] o.op \in {"remove_restriction", "remove_restriction_from"} /\ n > 0 ->
          [ss EXCEPT ![o.h] = S \ {Cons(o.k, t) : t \in SubOf(n, ss, o)}]
    [] o.op = "get_mut_insert" /\ n >= 2 ->
          IF WithPrefix(S, o.k) = {} THEN ss ELSE [ss EXCEPT ![o.h] = S \cup {Cons(o.k, o.t)}]
    [] o.op = "restrictions_mut_insert" /\ n >= 2 ->
          [ss EXCEPT ![o.h] = S \cup {Cons(k, o.t) : k \in Firsts(S)}]
    [] o.op = "mapped" -> [ss EXCEPT ![o.h] = Mapped(ss[o.h2], o.maps)]
    [] OTHER -> ss
=============================================================================
