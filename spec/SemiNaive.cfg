SPECIFICATION Spec
INVARIANTS ExactlyOnce SameShape
CHECK_DEADLOCK FALSE
