-------------------------------- MODULE ApiGen --------------------------------
(***************************************************************************)
(* The caller's side of the generated API as a state machine: which calls  *)
(* a client can make on a model of a given theory, with elements named by  *)
(* handles (the k-th element of a type the caller obtained from new_ /     *)
(* define_).  TLC enumerates every history of the scope - all              *)
(* interleavings of assertions, equalities, closes and close_until calls   *)
(* that stop at the j-th evaluation of the condition - and prints each     *)
(* complete one for replay against the real generated code                 *)
(* (harness/model-driver); the recorded traces are then validated by       *)
(* ApiTrace.  Pre-created handles (constant Pre) keep the interesting part *)
(* of a history short.                                                     *)
(***************************************************************************)
EXTENDS Integers, Sequences, FiniteSets, TLC, Json
CONSTANTS Types, Arity, Insertable, Definable, EquateTypes, Pre, MaxOps, MaxAsserts, MaxStop, MaxHandles,
          NewTypes       \* types with a public new_ function: elements may also be created late (after closes)
VARIABLES nh, hist, nassert
vars == <<nh, hist, nassert>>
ResT(f) == Arity[f][Len(Arity[f])]
Op(op, rel, ty, args, a, b, stop) == [op |-> op, rel |-> rel, ty |-> ty, args |-> args, a |-> a, b |-> b, stop |-> stop]
HandleTuples(tys) == { t \in [1..Len(tys) -> 0..(MaxHandles - 1)] : \A i \in DOMAIN t : t[i] < nh[tys[i]] }
ArgTypes(f) == SubSeq(Arity[f], 1, Len(Arity[f]) - 1)
LastIsClose == hist # <<>> /\ hist[Len(hist)].op \in {"close", "close_until"}

Init == nh = Pre /\ hist = <<>> /\ nassert = 0
Insert == \E r \in Insertable : \E t \in HandleTuples(Arity[r]) :
            /\ nassert < MaxAsserts
            /\ hist' = Append(hist, Op("insert", r, "", t, 0, 0, 0)) /\ nassert' = nassert + 1 /\ nh' = nh
Define == \E f \in Definable : \E t \in HandleTuples(ArgTypes(f)) :
            /\ nassert < MaxAsserts /\ nh[ResT(f)] < MaxHandles
            /\ hist' = Append(hist, Op("define", f, "", t, 0, 0, 0)) /\ nassert' = nassert + 1
            /\ nh' = [nh EXCEPT ![ResT(f)] = @ + 1]
Equate == \E T \in EquateTypes : \E a, b \in 0..(MaxHandles - 1) :
            /\ a < b /\ b < nh[T] /\ nassert < MaxAsserts
            /\ hist' = Append(hist, Op("equate", "", T, <<>>, a, b, 0)) /\ nassert' = nassert + 1 /\ nh' = nh
New == \E T \in NewTypes :
            /\ nh[T] < MaxHandles
            /\ hist' = Append(hist, Op("new", "", T, <<>>, 0, 0, 0)) /\ nh' = [nh EXCEPT ![T] = @ + 1] /\ nassert' = nassert
Close == /\ ~LastIsClose /\ hist # <<>>
         /\ hist' = Append(hist, Op("close", "", "", <<>>, 0, 0, -1)) /\ UNCHANGED <<nh, nassert>>
CloseUntil == \E k \in 0..MaxStop :
         /\ hist # <<>> /\ (LastIsClose => hist[Len(hist)].op = "close_until")
         /\ hist' = Append(hist, Op("close_until", "", "", <<>>, 0, 0, k)) /\ UNCHANGED <<nh, nassert>>
Next == Len(hist) < MaxOps /\ (Insert \/ Define \/ Equate \/ New \/ Close \/ CloseUntil)
Spec == Init /\ [][Next]_vars
\* every history of maximal length is emitted once (shorter ones are prefixes of these)
Emit == Len(hist) = MaxOps => PrintT(<<"REPLAY", ToJson(hist)>>)
TypeOK == \A T \in Types : nh[T] <= MaxHandles
=============================================================================
