---- MODULE MCBuild ----
EXTENDS Build, Json
\* one line per complete history (used with the history variable in the state)
Emit == (pc = "idle" /\ steps = MaxSteps) => PrintT(<<"REPLAY", ToJson(hist)>>)
MVersions == {"v1", "v2", "v3", "v4"}
MComps == {"c1", "c2"}
MHasComp == [v \in MVersions |-> IF v = "v3" THEN {"c1", "c2"} ELSE {"c1"}]
\* v2 reverses rule one; v3 adds rule two, whose query changes the index order rule one's library is
\* compiled against (same rule text, different library); v4 only differs from v1 in a comment
MComp == [c \in MComps |-> [v \in MVersions |-> IF c = "c1" THEN (IF v = "v2" THEN "b" ELSE IF v = "v3" THEN "c" ELSE "a") ELSE "z"]]
MMod == [v \in MVersions |-> IF v = "v4" THEN "v1" ELSE v]
MCompOrder == <<"c1", "c2">>
====
