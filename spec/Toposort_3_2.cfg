SPECIFICATION Spec
CONSTANTS
  NObj = 3
  NMor = 2
INVARIANTS DesignValid Emit
CHECK_DEADLOCK FALSE
