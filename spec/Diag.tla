--------------------------------- MODULE Diag ---------------------------------
(***************************************************************************)
(* C11, design level: what the compiler does with source positions when it *)
(* renders a diagnostic (eqlog/src/build.rs whipe_comments,                *)
(* eqlog/src/source_display.rs line_locations / intersecting lines).       *)
(* A text is a sequence of "chars": "a" (1 byte), "e" (a 2-byte UTF-8      *)
(* char), "LF", "CRLF" (2 bytes).  The reported position `pos` is the      *)
(* index of a non-terminator char, or Len(text)+1 for "unexpected end of   *)
(* file".  Locations are computed in the coordinates of the text in which  *)
(* comments were wiped and the excerpt is cut out of the original text.    *)
(*   KeepTerminators = FALSE: wiping rebuilds the text with                *)
(*       lines().join("\n") (CRLF -> LF, trailing terminator dropped) and  *)
(*       the line table adds one byte per line - the code before the       *)
(*       repair of finding F2;  TRUE: terminators are kept, the line table *)
(*       uses their real length.                                           *)
(*   EofFallback = FALSE: no line intersecting the location is a panic -   *)
(*       before the repair of F1;  TRUE: the last line is shown.           *)
(* Every text up to MaxLen with every position is an initial state.        *)
(***************************************************************************)
EXTENDS Naturals, Sequences, FiniteSets, TLC
CONSTANTS MaxLen, KeepTerminators, EofFallback
Chars == {"a", "e", "LF", "CRLF"}
Bytes(c) == CASE c = "a" -> 1 [] c = "e" -> 2 [] c = "LF" -> 1 [] c = "CRLF" -> 2
IsTerm(c) == c \in {"LF", "CRLF"}
VARIABLES text, pos
Init == text \in UNION {[1..n -> Chars] : n \in 0..MaxLen} /\ pos \in 1..(Len(text) + 1)
Next == UNCHANGED <<text, pos>>
Spec == Init /\ [][Next]_<<text, pos>>

\* lines of the original text as sequences of char indices (str::lines / split_inclusive('\n'):
\* split at terminators, no empty last line)
RECURSIVE LinesFrom(_, _, _)
LinesFrom(i, cur, acc) ==
  IF i > Len(text) THEN (IF cur = <<>> THEN acc ELSE Append(acc, cur))
  ELSE IF IsTerm(text[i]) THEN LinesFrom(i + 1, <<>>, Append(acc, cur))
  ELSE LinesFrom(i + 1, Append(cur, i), acc)
Lines == LinesFrom(1, <<>>, <<>>)
RECURSIVE SumBytes(_, _)
SumBytes(s, k) == IF k > Len(s) THEN 0 ELSE Bytes(text[s[k]]) + SumBytes(s, k + 1)
LineLen(n) == SumBytes(Lines[n], 1)
\* byte offset of char index i in the original text / in the wiped text
RECURSIVE OOff(_)
OOff(i) == IF i = 1 THEN 0 ELSE OOff(i - 1) + Bytes(text[i - 1])
RECURSIVE WOffOld(_)
WOffOld(i) == IF i = 1 THEN 0 ELSE WOffOld(i - 1) + (IF IsTerm(text[i - 1]) THEN 1 ELSE Bytes(text[i - 1]))
WOff(i) == IF KeepTerminators THEN OOff(i) ELSE WOffOld(i)
WipedLenOld == LET RECURSIVE L(_) L(n) == IF n > Len(Lines) THEN 0 ELSE LineLen(n) + (IF n < Len(Lines) THEN 1 ELSE 0) + L(n + 1) IN L(1)
WipedLen == IF KeepTerminators THEN OOff(Len(text) + 1) ELSE WipedLenOld
\* reported location: a one-char token, or (len, len+1) at end of file
Loc == IF pos <= Len(text) THEN <<WOff(pos), WOff(pos) + Bytes(text[pos])>> ELSE <<WipedLen, WipedLen + 1>>
\* byte offset at which line n really starts in the original text
FirstIdx(n) == \* char index at which line n starts
  LET RECURSIVE F(_, _) F(k, i) == IF k = 1 THEN i ELSE
        LET RECURSIVE T(_) T(j) == IF IsTerm(text[j]) THEN j ELSE T(j + 1) IN F(k - 1, T(i) + 1)
  IN F(n, 1)
OrigStart(n) == OOff(FirstIdx(n))
\* the line table
RECURSIVE LineLocOld(_)
LineLocOld(n) == IF n = 1 THEN <<0, LineLen(1)>> ELSE LET p == LineLocOld(n - 1) IN <<p[2] + 1, p[2] + 1 + LineLen(n)>>
LineLoc(n) == IF KeepTerminators THEN <<OrigStart(n), OrigStart(n) + LineLen(n)>> ELSE LineLocOld(n)
Intersects(a, b) == LET bg == IF a[1] > b[1] THEN a[1] ELSE b[1]  en == IF a[2] < b[2] THEN a[2] ELSE b[2] IN
                    IF a[1] # a[2] /\ b[1] # b[2] THEN bg < en ELSE bg <= en
Hit == {n \in 1..Len(Lines) : Intersects(LineLoc(n), Loc)}
Excerpt == IF Hit = {} /\ EofFallback /\ Len(Lines) > 0 THEN {Len(Lines)} ELSE Hit
RECURSIVE TrueLine(_, _)
TrueLine(i, n) == IF i = 1 THEN n ELSE TrueLine(i - 1, IF IsTerm(text[i - 1]) THEN n + 1 ELSE n)
\* an end-of-file error needs some token before it; tokens are never line terminators
Pointable == IF pos > Len(text) THEN \E i \in DOMAIN text : ~IsTerm(text[i]) ELSE ~IsTerm(text[pos])

\* ---- properties ----
NoPanic == Pointable => Excerpt # {}
ContentOk == Pointable => \A n \in Excerpt : LineLoc(n)[1] = OrigStart(n)
RightLine == (Pointable /\ pos <= Len(text)) => TrueLine(pos, 1) \in Excerpt
=============================================================================
