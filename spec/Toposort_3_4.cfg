SPECIFICATION Spec
CONSTANTS
  NObj = 3
  NMor = 4
INVARIANTS DesignValid Emit
CHECK_DEADLOCK FALSE
