SPECIFICATION Spec
CONSTANTS
  MaxN = 4
  MaxOps = 5
INVARIANTS Refines RootLaws Halving Emit
CHECK_DEADLOCK FALSE
