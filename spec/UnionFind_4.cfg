SPECIFICATION Spec
CONSTANTS
  MaxN = 4
  MaxOps = 6
INVARIANTS Refines RootLaws Halving Emit
CHECK_DEADLOCK FALSE
