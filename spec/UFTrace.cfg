SPECIFICATION Spec
INVARIANT Report
POSTCONDITION AllConsumed
CHECK_DEADLOCK FALSE
