SPECIFICATION Spec
CONSTANTS
  MaxLen = 5
  KeepTerminators = TRUE
  EofFallback = TRUE
INVARIANTS NoPanic ContentOk RightLine
CHECK_DEADLOCK FALSE
