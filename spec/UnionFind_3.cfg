SPECIFICATION Spec
CONSTANTS
  MaxN = 3
  MaxOps = 5
INVARIANTS Refines RootLaws Halving Emit
CHECK_DEADLOCK FALSE
