------------------------------- MODULE Toposort -------------------------------
(***************************************************************************)
(* Design-level check for C18 and generator of replay cases: every graph   *)
(* with objects 0..NObj-1 and morphisms 1..NMor whose dom and cod are each *)
(* optional is an initial state; the transcribed algorithm must produce a  *)
(* ValidOutput for the all-old split and for the split in which the dom    *)
(* entries of odd morphisms are new.                                       *)
(***************************************************************************)
EXTENDS ToposortOps, Json
CONSTANTS NObj, NMor
None == -1
Objs == 0..(NObj-1)
Mors == 1..NMor
VARIABLES dom, cod
Init == dom \in [Mors -> Objs \cup {None}] /\ cod \in [Mors -> Objs \cup {None}]
Next == UNCHANGED <<dom, cod>>
Spec == Init /\ [][Next]_<<dom, cod>>
DomE == {<<m, dom[m]>> : m \in {x \in Mors : dom[x] # None}}
CodE == {<<m, cod[m]>> : m \in {x \in Mors : cod[x] # None}}
DesignValid ==
  /\ LET r == Kahn(Objs, DomE, CodE, {}) IN ValidOutput(DomE, CodE, r.err, r.out)
  /\ LET r == Kahn(Objs, DomE, CodE, {p \in DomE : p[1] % 2 = 1}) IN ValidOutput(DomE, CodE, r.err, r.out)
Emit == PrintT(<<"GRAPH", ToJson([dom |-> dom, cod |-> cod, nobj |-> NObj])>>)
=============================================================================
