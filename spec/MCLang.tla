---- MODULE MCLang ----
EXTENDS Lang
VARIABLE prog
Init == prog \in [1..2 -> Stmts]
Next == UNCHANGED prog
Emit == PrintT(<<"PROG", ToJson([prog |-> prog, errs |-> Errors(prog)])>>)
====
