------------------------------- MODULE OrdMapOps ----------------------------
(***************************************************************************)
(* Contract of eqlog-runtime's ordered map (WBTreeMap<V>, V = integers)    *)
(* for property C14.  A fixed family of handles 1..NH holds maps; a map is *)
(* a function from a finite set of keys to values.  Every public method of *)
(* the implementation is one operation `o` (a record of uniform shape);    *)
(* `Result(ms, o)` is what the call returns, `Apply(ms, o)` the family of  *)
(* maps afterwards, `Callbacks(ms, o)` the set of <<key, left, right>>     *)
(* triples the merge/filter callback must be invoked with.  Only the       *)
(* destination handle of an operation changes: that is clone independence. *)
(* The module is used three ways: TLC explores it (MCOrdMap) to check the  *)
(* algebraic laws below and to generate operation sequences for replay,    *)
(* OrdMapTrace replays recorded executions of the real WBTreeMap through   *)
(* Result/Apply/Callbacks, and WBTreeAlg refines it.                       *)
(***************************************************************************)
EXTENDS Integers, Sequences, FiniteSets, TLC

None == -1                       \* "no value" in results (values are naturals)
ModV == 1009

EmptyMap == [k \in {} |-> 0]
Put(m, k, v) == [x \in DOMAIN m \cup {k} |-> IF x = k THEN v ELSE m[x]]
Del(m, k) == [x \in DOMAIN m \ {k} |-> m[x]]
Lookup(m, k) == IF k \in DOMAIN m THEN m[k] ELSE None

\* The callbacks the harness passes to union / difference.  Deliberately not commutative in
\* (l, r), so that swapped operands are visible in the result.
Merge(k, l, r) == (l * 3 + r + k) % ModV
Filt(k, l, r) == IF (l + r + k) % 2 = 0 THEN None ELSE (l * 5 + r) % ModV

UnionM(a, b) == [k \in DOMAIN a \cup DOMAIN b |->
                   IF k \in DOMAIN a /\ k \in DOMAIN b THEN Merge(k, a[k], b[k])
                   ELSE IF k \in DOMAIN a THEN a[k] ELSE b[k]]
DiffM(a, b) == LET keep == {k \in DOMAIN a : k \notin DOMAIN b \/ Filt(k, a[k], b[k]) # None}
               IN [k \in keep |-> IF k \in DOMAIN b THEN Filt(k, a[k], b[k]) ELSE a[k]]
Both(a, b) == {<<k, a[k], b[k]>> : k \in DOMAIN a \cap DOMAIN b}

OpNames == {"insert", "remove", "get", "get_mut", "entry_or_insert", "entry_or_insert_with",
            "entry_toggle", "entry_set", "iter_mut_add", "iter_mut_key", "clear", "clone",
            "union", "diff"}

\* o = [op, h, h2, h3, k, v]; h is the handle the operation acts on / assigns to
Result(ms, o) ==
  LET m == ms[o.h] IN
  CASE o.op = "insert"  -> Lookup(m, o.k)
    [] o.op = "remove"  -> Lookup(m, o.k)
    [] o.op = "get"     -> Lookup(m, o.k)
    [] o.op = "get_mut" -> Lookup(m, o.k)
    [] o.op \in {"entry_or_insert", "entry_or_insert_with"} -> IF o.k \in DOMAIN m THEN m[o.k] ELSE o.v
    [] o.op = "entry_toggle" -> IF o.k \in DOMAIN m THEN m[o.k] ELSE o.v
    [] o.op = "entry_set" -> Lookup(m, o.k)
    [] o.op = "iter_mut_add" -> Cardinality(DOMAIN m)
    [] o.op = "iter_mut_key" -> IF o.k \in DOMAIN m THEN 1 ELSE 0
    [] OTHER -> 0

Apply(ms, o) ==
  LET m == ms[o.h] IN
  CASE o.op = "insert"  -> [ms EXCEPT ![o.h] = Put(m, o.k, o.v)]
    [] o.op = "remove"  -> [ms EXCEPT ![o.h] = Del(m, o.k)]
    [] o.op = "get"     -> ms
    [] o.op \in {"get_mut", "entry_set", "iter_mut_key"} ->
          IF o.k \in DOMAIN m THEN [ms EXCEPT ![o.h] = Put(m, o.k, o.v)] ELSE ms
    [] o.op \in {"entry_or_insert", "entry_or_insert_with"} ->
          IF o.k \in DOMAIN m THEN ms ELSE [ms EXCEPT ![o.h] = Put(m, o.k, o.v)]
    [] o.op = "entry_toggle" ->
          IF o.k \in DOMAIN m THEN [ms EXCEPT ![o.h] = Del(m, o.k)] ELSE [ms EXCEPT ![o.h] = Put(m, o.k, o.v)]
    [] o.op = "iter_mut_add" -> [ms EXCEPT ![o.h] = [k \in DOMAIN m |-> (m[k] + o.v) % ModV]]
    [] o.op = "clear"   -> [ms EXCEPT ![o.h] = EmptyMap]
    [] o.op = "clone"   -> [ms EXCEPT ![o.h] = ms[o.h2]]
    [] o.op = "union"   -> [ms EXCEPT ![o.h] = UnionM(ms[o.h2], ms[o.h3])]
    [] o.op = "diff"    -> [ms EXCEPT ![o.h] = DiffM(ms[o.h2], ms[o.h3])]

Callbacks(ms, o) == IF o.op \in {"union", "diff"} THEN Both(ms[o.h2], ms[o.h3]) ELSE {}
=============================================================================
