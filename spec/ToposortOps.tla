----------------------------- MODULE ToposortOps -----------------------------
(***************************************************************************)
(* C18: what eqlog_runtime::morphism_toposort must return, and a           *)
(* functional transcription of what it does (Kahn's algorithm as in        *)
(* toposort.rs).  A graph is given by the sets                             *)
(*   objs  - objects,                                                      *)
(*   domE  - <<morphism, object>> pairs of the dom table,                  *)
(*   codE  - <<morphism, object>> pairs of the cod table                   *)
(* (functional tables: at most one pair per morphism).                     *)
(***************************************************************************)
EXTENDS Integers, Sequences, FiniteSets, TLC

HasDom(domE, m) == \E p \in domE : p[1] = m
HasCod(codE, m) == \E p \in codE : p[1] = m
DomOf(domE, m) == (CHOOSE p \in domE : p[1] = m)[2]
CodOf(codE, m) == (CHOOSE p \in codE : p[1] = m)[2]
Full(domE, codE) == {p[1] : p \in domE} \cap {p[1] : p \in codE}
Edges(domE, codE) == {<<DomOf(domE, m), CodOf(codE, m)>> : m \in Full(domE, codE)}
RECURSIVE TC(_)
TC(X) == LET W == X \cup {<<pq[1][1], pq[2][2]>> : pq \in {pq \in X \X X : pq[1][2] = pq[2][1]}}
         IN IF W = X THEN X ELSE TC(W)
Cyclic(domE, codE) == \E p \in TC(Edges(domE, codE)) : p[1] = p[2]

\* out: sequence of <<morph, dom, cod>>
ValidOutput(domE, codE, err, out) ==
  /\ err = Cyclic(domE, codE)
  /\ ~err =>
       /\ {out[i][1] : i \in DOMAIN out} = Full(domE, codE)
       /\ Len(out) = Cardinality(Full(domE, codE))
       /\ \A i \in DOMAIN out : out[i][2] = DomOf(domE, out[i][1]) /\ out[i][3] = CodOf(codE, out[i][1])
       /\ \A i, j \in DOMAIN out : out[i][3] = out[j][2] => i < j

(* ---- transcription of the implementation (the new/old split only affects the order in which
   the out-morphisms of one object are visited: new ones first) ---- *)
SortedSeq(S) ==
  LET RECURSIVE F(_) F(T) == IF T = {} THEN <<>> ELSE LET x == CHOOSE x \in T : \A y \in T : x <= y IN <<x>> \o F(T \ {x}) IN F(S)
\* domNew: the subset of domE stored in the `new` table
Kahn(objs, domE, codE, domNew) ==
  LET inDeg0 == [o \in objs |-> Cardinality({p \in domE : HasCod(codE, p[1]) /\ CodOf(codE, p[1]) = o})]
      zero == {o \in objs : inDeg0[o] = 0}
      outs(o) == SortedSeq({p[1] : p \in {q \in domNew : q[2] = o /\ HasCod(codE, q[1])}})
                 \o SortedSeq({p[1] : p \in {q \in domE \ domNew : q[2] = o /\ HasCod(codE, q[1])}})
      RECURSIVE Proc(_, _, _, _, _)
      Proc(os, i, q, ind, o) ==
         IF i > Len(os) THEN <<q, ind, o>>
         ELSE LET m == os[i] c == CodOf(codE, m) d == ind[c] - 1
              IN IF d = 0 THEN Proc(os, i + 1, Append(q, c), [x \in (DOMAIN ind) \ {c} |-> ind[x]], Append(o, <<m, DomOf(domE, m), c>>))
                 ELSE Proc(os, i + 1, q, [ind EXCEPT ![c] = d], Append(o, <<m, DomOf(domE, m), c>>))
      RECURSIVE Loop(_, _, _)
      Loop(queue, ind, out) ==
         IF queue = <<>> THEN [err |-> DOMAIN ind # {}, out |-> IF DOMAIN ind # {} THEN <<>> ELSE out]
         ELSE LET r == Proc(outs(Head(queue)), 1, Tail(queue), ind, out) IN Loop(r[1], r[2], r[3])
  IN Loop(SortedSeq(zero), [o \in objs \ zero |-> inDeg0[o]], <<>>)
=============================================================================
