---------------------------- MODULE UnionFindOps ----------------------------
(***************************************************************************)
(* eqlog_runtime::Unification (unification.rs): the union-find behind      *)
(* root_<type> / are_equal_<type> / equate_<type> of every generated model *)
(* (C05), as                                                               *)
(*  - a contract on the abstract state `rt`: the sequence mapping element  *)
(*    e (0-based; rt[e+1]) to the representative of its class, and         *)
(*  - a transcription of the implementation's parent forest with the path  *)
(*    halving of root().                                                   *)
(***************************************************************************)
EXTENDS Integers, Sequences, FiniteSets, TLC

Els(s) == 0..(Len(s) - 1)
At(s, e) == s[e + 1]

(* ---- contract ---- *)
Grow(rt, n) == [i \in 1..n |-> IF i <= Len(rt) THEN rt[i] ELSE i - 1]
\* union_roots_into(lhs, rhs): precondition both are representatives; rhs represents the union
UnionInto(rt, l, r) == [i \in DOMAIN rt |-> IF rt[i] = l THEN r ELSE rt[i]]
SortedSeq(S) ==
  LET RECURSIVE F(_) F(T) == IF T = {} THEN <<>> ELSE LET x == CHOOSE x \in T : \A y \in T : x <= y IN <<x>> \o F(T \ {x}) IN F(S)
\* classes(): representative |-> ascending list of the other members
ClassesOf(rt) == [r \in {At(rt, e) : e \in Els(rt)} |-> SortedSeq({e \in Els(rt) : At(rt, e) = r /\ e # r})]
WellFormed(rt) == \A e \in Els(rt) : At(rt, e) \in Els(rt) /\ At(rt, At(rt, e)) = At(rt, e)
SameClass(rt, a, b) == At(rt, a) = At(rt, b)

(* ---- transcription ---- *)
\* bounded parent chasing (a cyclic forest must not make TLC diverge)
RECURSIVE Chase(_, _, _)
Chase(p, e, k) == IF At(p, e) = e \/ k = 0 THEN e ELSE Chase(p, At(p, e), k - 1)
RootConst(p, e) == Chase(p, e, Len(p))
Forest(p) == \A e \in Els(p) : At(p, e) \in Els(p) /\ At(p, RootConst(p, e)) = RootConst(p, e)
\* root(): `while el != parent { parents[el] = parents[parent]; el = parent; parent = parents[parent] }`
RECURSIVE RootLoop(_, _, _, _)
RootLoop(p, el, parent, k) ==
  IF el = parent \/ k = 0 THEN [p |-> p, r |-> el]
  ELSE LET p2 == [p EXCEPT ![el + 1] = At(p, parent)] IN RootLoop(p2, parent, At(p2, parent), k - 1)
RootMut(p, e) == RootLoop(p, e, At(p, e), Len(p) + 1)
UnionForest(p, l, r) == [p EXCEPT ![l + 1] = r]
GrowForest(p, n) == [i \in 1..n |-> IF i <= Len(p) THEN p[i] ELSE i - 1]
AbsOf(p) == [i \in 1..Len(p) |-> RootConst(p, i - 1)]
=============================================================================
