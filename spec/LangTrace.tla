------------------------------ MODULE LangTrace ------------------------------
(***************************************************************************)
(* C10 (and the acceptance half of C09): verdicts of the real compiler on  *)
(* programs of the Lang fragment.  Event kinds:                            *)
(*   prog   - a program enumerated by TLC from Lang.tla (MCLang), with the *)
(*            CLI's exit status, error class and statement number; the     *)
(*            monitor recomputes Lang!Errors(prog) and requires            *)
(*            accept <=> Errors = {}, and on rejection <<class, stmt>> \in  *)
(*            Errors(prog);                                                *)
(*   mutant - a well-formed program with one planted symbol-level defect   *)
(*            (undeclared / twice-declared / wrongly-kinded symbol, wrong  *)
(*            argument count): must be rejected with one of the expected   *)
(*            classes at the planted line;                                 *)
(*   valid  - a well-formed program: must be accepted.                     *)
(***************************************************************************)
EXTENDS Lang, IOUtils
Rec == ndJsonDeserialize(IOEnv.TRACE)
VARIABLES l, viol, stats
tvars == <<l, viol, stats>>
ToSetT(s) == {s[i] : i \in DOMAIN s}
\* finding F9: `v := t!` whose variable occurs in its own defining term
SelfDef(prog) == \E k \in DOMAIN prog : prog[k].k = "then" /\ prog[k].a.t = "def" /\ prog[k].a.v # NoVar /\ prog[k].a.v \in Sub(prog[k].a.tm)
Bad(e) ==
  IF e.timeout THEN {"the compiler did not terminate"} ELSE
  CASE e.ev = "prog" ->
         LET E == Errors(e.prog) IN
         IF e.rc \notin {0, 1}
         THEN (IF SelfDef(e.prog) THEN {"accepted `v := t!` with v occurring in t and crashed while lowering it"}
               ELSE {"the compiler crashed (exit status " \o ToString(e.rc) \o ")"})
         ELSE IF e.rc = 0 THEN (IF E = {} THEN {} ELSE {"an ill-formed program was accepted"})
         ELSE IF E = {} THEN {"a well-formed program was rejected (" \o e.cls \o ")"}
         ELSE IF <<e.cls, e.ln>> \in E THEN {} ELSE {"the reported error (" \o e.cls \o ") is not a defect of the program at that line"}
    [] e.ev = "sprog" ->     \* a structured rule (branch ... along ...); e.key = <<item, block, index>> of the reported line
         LET E == ErrorsS(e.prog) IN
         IF e.rc \notin {0, 1}
         THEN (IF SelfDef(AllFrom(e.prog, 1)[1]) THEN {"accepted `v := t!` with v occurring in t and crashed while lowering it"}
               ELSE {"the compiler crashed (exit status " \o ToString(e.rc) \o ")"})
         ELSE IF e.rc = 0 THEN (IF E = {} THEN {} ELSE {"an ill-formed program was accepted"})
         ELSE IF E = {} THEN {"a well-formed program was rejected (" \o e.cls \o ")"}
         ELSE IF \/ <<e.cls, <<e.key[1], e.key[2], e.key[3]>>>> \in E
                 \* a defect of `term = pattern` of a match case may be reported at the line of the term
                 \/ (e.key[2] = 0 /\ \E er \in E : er[1] = e.cls /\ er[2][1] = e.key[1] /\ er[2][3] = 0)
              THEN {} ELSE {"the reported error (" \o e.cls \o ") is not a defect of the program at that line"}
    [] e.ev = "mutant" ->
         IF e.rc \notin {0, 1} THEN {"the compiler crashed (exit status " \o ToString(e.rc) \o ")"}
         ELSE IF e.rc = 0 THEN {"a program with a planted " \o e.planted \o " defect was accepted"}
         ELSE IF e.cls \in ToSetT(e.expected) /\ e.ln \in ToSetT(e.lines_expected) THEN {}
         ELSE {"planted " \o e.planted \o ": reported " \o e.cls \o " at line " \o ToString(e.ln) \o " instead"}
    [] e.ev = "valid" ->
         IF e.rc = 0 THEN {} ELSE IF e.rc = 1 THEN {"a well-formed program was rejected (" \o e.cls \o ")"}
         ELSE {"the compiler crashed (exit status " \o ToString(e.rc) \o ")"}
Init == l = 1 /\ viol = {} /\ stats = [progs |-> 0, accepted |-> 0, rejected |-> 0, mutants |-> 0]
Step ==
  /\ l <= Len(Rec) /\ l' = l + 1
  /\ LET e == Rec[l] IN
     /\ viol' = viol \cup { v \in {[prop |-> "C10", line |-> l, id |-> e.id, what |-> w] : w \in Bad(e)} :
                                 Cardinality({ u \in viol : u.what = v.what }) < 6 }
     /\ stats' = [stats EXCEPT !.progs = @ + (IF e.ev \in {"prog", "sprog"} THEN 1 ELSE 0), !.accepted = @ + (IF e.rc = 0 THEN 1 ELSE 0),
                               !.rejected = @ + (IF e.rc = 1 THEN 1 ELSE 0), !.mutants = @ + (IF e.ev = "mutant" THEN 1 ELSE 0)]
Spec == Init /\ [][Step]_tvars
Report == (l = Len(Rec) + 1) => PrintT(<<"RESULT", ToJson([viol |-> viol, stats |-> stats, events |-> Len(Rec)])>>)
AllConsumed == TLCGet("stats").diameter = Len(Rec) + 1 \/ PrintT(<<"UNMATCHED", TLCGet("stats").diameter>>)
=============================================================================
