--------------------------------- MODULE Link ---------------------------------
(***************************************************************************)
(* C19, structural part.  Programs is extracted (tools/extract.py,         *)
(* checks/c19.py) from what the compiler under test emits for one source   *)
(* in module mode and in component mode:                                   *)
(*   structs   - every declaration of every rule-environment struct in the *)
(*               module-mode module, the component-mode module and each    *)
(*               component source (field lines, in order);                 *)
(*   imports   - the link_name of every `extern "Rust"` rule function the  *)
(*               component-mode module declares, with its env struct;      *)
(*   exports   - the #[no_mangle] function of every component source with  *)
(*               its env struct;                                           *)
(*   inline    - the same for the rule modules inlined in module mode;     *)
(*   ruletext  - per rule: digest of the rule code in the module-mode      *)
(*               module and of the component source.                       *)
(* One TLC state per program.                                              *)
(***************************************************************************)
EXTENDS Integers, Sequences, FiniteSets, TLC, Json, IOUtils
Programs == JsonDeserialize(IOEnv.LINK)
VARIABLE p
Init == p \in DOMAIN Programs
Next == UNCHANGED p
Spec == Init /\ [][Next]_p
P == Programs[p]
ToSet(s) == {s[i] : i \in DOMAIN s}
NoDup(s) == Len(s) = Cardinality(ToSet(s))

\* the environment passed to a rule function is declared identically wherever it is declared
EnvIdentical == \A i \in DOMAIN P.structs : \A a, b \in DOMAIN P.structs[i].decls : P.structs[i].decls[a] = P.structs[i].decls[b]
\* every declaration site exists: one in the component-mode module, one in its component, two in module mode
EnvEverywhere == \A i \in DOMAIN P.structs : Len(P.structs[i].decls) >= 3
\* the module imports exactly the symbols the components export, each once, with the same environment type
SymbolsMatch == /\ NoDup(P.imports) /\ NoDup(P.exports)
                /\ ToSet(P.imports) = ToSet(P.exports)
                /\ ToSet(P.inline) = ToSet(P.exports)
\* both builds contain the same rule code
SameRuleCode == \A i \in DOMAIN P.ruletext : P.ruletext[i].module = P.ruletext[i].component
\* outside the rule modules the two modules are the same text
SameModuleRest == P.rest_module = P.rest_component
=============================================================================
