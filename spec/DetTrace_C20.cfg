SPECIFICATION Spec
CONSTANT Prop = "C20"
INVARIANT Report
POSTCONDITION AllConsumed
CHECK_DEADLOCK FALSE
