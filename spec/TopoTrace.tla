------------------------------ MODULE TopoTrace ------------------------------
(***************************************************************************)
(* Trace validation for C18: every recorded call of morphism_toposort      *)
(* (graph, new/old split, result) is checked with ValidOutput; consecutive *)
(* events with the same graph id `g` are different splits of one graph and *)
(* must agree on the verdict and on the set of returned entries.  The      *)
(* transcribed algorithm's exact output order is compared too (drift).     *)
(***************************************************************************)
EXTENDS ToposortOps, Json, IOUtils
Rec == ndJsonDeserialize(IOEnv.TRACE)
VARIABLES l, prev, viol, drift
vars == <<l, prev, viol, drift>>
ToSet(s) == {s[i] : i \in DOMAIN s}
V(e, what) == [prop |-> "C18", line |-> l, id |-> e.id, what |-> what]
Init == l = 1 /\ prev = [g |-> -1, err |-> FALSE, out |-> {}] /\ viol = {} /\ drift = 0
Step ==
  /\ l <= Len(Rec) /\ l' = l + 1
  /\ LET e == Rec[l] IN
     IF e.ev = "panic" THEN viol' = viol \cup {V(e, "panic: " \o e.msg)} /\ UNCHANGED <<prev, drift>>
     ELSE
     LET domE == {<<p[1], p[2]>> : p \in ToSet(e.dom)}
         codE == {<<p[1], p[2]>> : p \in ToSet(e.cod)}
         domNew == {<<p[1], p[2]>> : p \in {q \in ToSet(e.dom) : q[3] = 1}}
         objs == {p[1] : p \in ToSet(e.objs)}
         bad == (IF ValidOutput(domE, codE, e.err, e.out) THEN {} ELSE {"output is not a valid topological order of the full morphisms / wrong cycle verdict"})
                \cup (IF prev.g = e.g /\ (prev.err # e.err \/ prev.out # ToSet(e.out)) THEN {"result depends on the new/old split"} ELSE {})
         k == Kahn(objs, domE, codE, domNew)
     IN /\ viol' = IF Cardinality(viol) < 12 THEN viol \cup {V(e, w) : w \in bad} ELSE viol
        /\ prev' = [g |-> e.g, err |-> e.err, out |-> ToSet(e.out)]
        /\ drift' = drift + (IF k.err = e.err /\ k.out = e.out THEN 0 ELSE 1)
Spec == Init /\ [][Step]_vars
Report == (l = Len(Rec) + 1) => PrintT(<<"RESULT", ToJson([viol |-> viol, drift |-> drift, events |-> Len(Rec)])>>)
AllConsumed == TLCGet("stats").diameter = Len(Rec) + 1 \/ PrintT(<<"UNMATCHED", TLCGet("stats").diameter>>)
=============================================================================
