------------------------------ MODULE DiagTrace ------------------------------
(***************************************************************************)
(* C11: every recorded run of the eqlog CLI on an input text (valid or     *)
(* not; truncated, without trailing newline, CRLF, non-ASCII) must end in  *)
(* success or in a well-formed diagnostic: exit status 0 or 1 (101 is a    *)
(* panic), no timeout, a line number inside the file, an excerpt made of   *)
(* complete input lines that include the reported line.  Where the         *)
(* generator knows the line of the defect it planted, the reported line    *)
(* must be that line; inputs of one group are the same lines under         *)
(* different line-ending encodings and must be answered identically.       *)
(* Diag.tla is the design-level counterpart.                               *)
(***************************************************************************)
EXTENDS Integers, Sequences, FiniteSets, TLC, Json, IOUtils
Rec == ndJsonDeserialize(IOEnv.TRACE)
VARIABLES l, first, viol, stats
vars == <<l, first, viol, stats>>
ToSet(s) == {s[i] : i \in DOMAIN s}
Bad(e) ==
  (IF e.timeout THEN {"the compiler did not terminate within the bound"} ELSE {})
  \cup (IF e.timeout \/ e.rc \in {0, 1} THEN {} ELSE {"the compiler crashed (exit status " \o ToString(e.rc) \o ")"})
  \cup (IF e.rc # 1 \/ e.timeout THEN {}
        ELSE (IF e.line >= 1 /\ e.line <= e.nlines THEN {} ELSE {"the reported line number is not a line of the file"})
             \cup (IF e.excerpt # <<>> THEN {} ELSE {"the diagnostic has no excerpt"})
             \cup (IF \A i \in DOMAIN e.excerpt : e.excerpt[i].n >= 1 /\ e.excerpt[i].n <= e.nlines /\ e.excerpt[i].text = e.lines[e.excerpt[i].n]
                   THEN {} ELSE {"an excerpt line is not a complete line of the input"})
             \cup (IF \E i \in DOMAIN e.excerpt : e.excerpt[i].n = e.line THEN {} ELSE {"the excerpt does not contain the reported line"}))
  \cup (IF e.expect_ok = 1 /\ e.rc = 1 THEN {"a well-formed program was rejected after a change of encoding only"} ELSE {})
  \cup (IF e.expect_line > 0 /\ ~e.timeout /\ e.rc \in {0, 1} /\ ~(e.rc = 1 /\ e.line = e.expect_line)
        THEN {"the diagnostic does not point at the line of the planted defect"} ELSE {})
  \cup (IF first.group = e.group /\ ~e.timeout /\ (first.rc # e.rc \/ first.line # e.line \/ first.texts # [i \in DOMAIN e.excerpt |-> e.excerpt[i].text])
        THEN {"the answer depends on the line-ending encoding"} ELSE {})
Init == l = 1 /\ first = [group |-> -1, rc |-> 0, line |-> 0, texts |-> <<>>] /\ viol = {}
        /\ stats = [inputs |-> 0, accepted |-> 0, rejected |-> 0, planted |-> 0]
Step ==
  /\ l <= Len(Rec) /\ l' = l + 1
  /\ LET e == Rec[l] IN
     /\ viol' = viol \cup { v \in {[prop |-> "C11", line |-> l, id |-> e.id, what |-> w] : w \in Bad(e)} :
                                 Cardinality({ u \in viol : u.what = v.what }) < 6 }
     /\ first' = IF first.group = e.group THEN first
                 ELSE [group |-> e.group, rc |-> e.rc, line |-> e.line, texts |-> [i \in DOMAIN e.excerpt |-> e.excerpt[i].text]]
     /\ stats' = [stats EXCEPT !.inputs = @ + 1, !.accepted = @ + (IF e.rc = 0 THEN 1 ELSE 0), !.rejected = @ + (IF e.rc = 1 THEN 1 ELSE 0),
                               !.planted = @ + (IF e.expect_line > 0 THEN 1 ELSE 0)]
Spec == Init /\ [][Step]_vars
Report == (l = Len(Rec) + 1) => PrintT(<<"RESULT", ToJson([viol |-> viol, stats |-> stats, events |-> Len(Rec)])>>)
AllConsumed == TLCGet("stats").diameter = Len(Rec) + 1 \/ PrintT(<<"UNMATCHED", TLCGet("stats").diameter>>)
=============================================================================
