---- MODULE Lang ----
EXTENDS Naturals, Sequences, FiniteSets, TLC, Json

(* fixed signature of the probe fragment *)
EnumTypes == {"E"}
PredAr == [p |-> <<"A">>, q |-> <<"A","B">>, z |-> <<>>]
Fn == [f |-> [dom |-> <<"A">>, cod |-> "A"], g |-> [dom |-> <<"A","B">>, cod |-> "B"],
       c |-> [dom |-> <<>>, cod |-> "A"], h |-> [dom |-> <<"A">>, cod |-> "E"],
       Nil |-> [dom |-> <<>>, cod |-> "E"], Cons |-> [dom |-> <<"A">>, cod |-> "E"]]
Ctors == {"Nil", "Cons"}

V(n) == [op |-> "var", n |-> n]
W == [op |-> "wild", id |-> <<>>]
Ap(f, args) == [op |-> "app", f |-> f, args |-> args]
NoVar == [op |-> "none"]

Range(s) == {s[i] : i \in DOMAIN s}

RECURSIVE Tag(_, _)
Tag(t, path) == CASE t.op = "wild" -> [op |-> "wild", id |-> path]
                  [] t.op = "app" -> [t EXCEPT !.args = [i \in DOMAIN t.args |-> Tag(t.args[i], Append(path, i))]]
                  [] OTHER -> t
RECURSIVE Sub(_)
Sub(t) == IF t.op = "app" THEN {t} \cup UNION {Sub(t.args[i]) : i \in DOMAIN t.args} ELSE {t}
Proper(t) == Sub(t) \ {t}

(* top-level terms of an atom, after tagging wildcards with <<k, position>> *)
Tops(a, k) ==
  CASE a.t = "pred" -> [i \in DOMAIN a.args |-> Tag(a.args[i], <<k, i>>)]
    [] a.t = "eq"   -> <<Tag(a.l, <<k, 1>>), Tag(a.r, <<k, 2>>)>>
    [] a.t = "def"  -> IF a.v = NoVar THEN <<Tag(a.tm, <<k, 1>>)>> ELSE <<Tag(a.tm, <<k, 1>>), a.v>>
    [] a.t = "vt"   -> <<a.v>>
StmtSub(prog, k) == UNION {Sub(x) : x \in Range(Tops(prog[k].a, k))}
Universe(prog) == UNION {StmtSub(prog, k) : k \in DOMAIN prog}

(* equalities contributed by statement k *)
StmtEqs(prog, k) == LET a == prog[k].a tp == Tops(a, k) IN
  CASE a.t = "eq" -> {<<tp[1], tp[2]>>}
    [] a.t = "def" /\ a.v # NoVar -> {<<tp[1], tp[2]>>}
    [] OTHER -> {}

RECURSIVE CC(_, _)
CC(R, U) ==
  LET R2 == R \cup {<<p[2], p[1]>> : p \in R}
              \cup {<<pq[1][1], pq[2][2]>> : pq \in {pq \in R \X R : pq[1][2] = pq[2][1]}}
              \cup {st \in U \X U : /\ st[1].op = "app" /\ st[2].op = "app" /\ st[1].f = st[2].f
                                    /\ Len(st[1].args) = Len(st[2].args)
                                    /\ \A i \in DOMAIN st[1].args : <<st[1].args[i], st[2].args[i]>> \in R}
  IN IF R2 = R THEN R ELSE CC(R2, U)
Closure(E, U) == CC(E \cup {<<t, t>> : t \in U}, U)

Errors(prog) ==
  LET U == Universe(prog)
      n == Len(prog)
      eqsBefore(k) == UNION {StmtEqs(prog, j) : j \in 1..(k-1)}
      occBefore(k) == UNION {StmtSub(prog, j) : j \in 1..(k-1)}
      exists(k, t) == \E s \in occBefore(k) : <<s, t>> \in Closure(eqsBefore(k), U)
      isThen(k) == prog[k].k = "then"
      varsOf(k) == {t \in StmtSub(prog, k) : t.op = "var"}
      inScope(k, v) == v \in occBefore(k)
      \* ---------- then-statement checks
      defVar(k) == IF prog[k].a.t = "def" /\ prog[k].a.v # NoVar THEN {prog[k].a.v} ELSE {}
      bodyVars(k) == IF prog[k].a.t = "def" THEN {t \in Sub(Tops(prog[k].a, k)[1]) : t.op = "var"} ELSE varsOf(k)
      varIntro == {<<"VarIntroducedInThen", k>> : k \in {k \in 1..n : isThen(k) /\ \E v \in bodyVars(k) : ~inScope(k, v)}}
      wildThen == {<<"WildcardInThen", k>> : k \in {k \in 1..n : isThen(k) /\ \E t \in StmtSub(prog, k) : t.op = "wild"}}
      defNotNew == {<<"ThenDefinedVarNotNew", k>> : k \in {k \in 1..n : isThen(k) /\ \E v \in defVar(k) : inScope(k, v)}}
      newApp(k, t) == t.op = "app" /\ ~exists(k, t)
      newTop(k, t) == newApp(k, t) \/ (t.op = "var" /\ ~inScope(k, t))
      surjAt(k) == LET a == prog[k].a tp == Tops(a, k) IN
         CASE a.t = "pred" -> \E i \in DOMAIN tp : \E t \in Sub(tp[i]) : newApp(k, t)
           [] a.t = "def"  -> \E t \in Proper(tp[1]) : newApp(k, t)
           [] a.t = "eq"   -> \/ \E t \in Proper(tp[1]) \cup Proper(tp[2]) : newApp(k, t)
                              \/ (newTop(k, tp[1]) /\ newTop(k, tp[2]))
           [] OTHER -> FALSE
      surj == {<<"Surjectivity", k>> : k \in {k \in 1..n : isThen(k) /\ surjAt(k)}}
      \* ---------- whole-rule checks
      occCount(v) == Cardinality({<<k, i>> \in (1..n) \X (1..8) : FALSE}) \* placeholder, replaced below
      \* occurrences of a variable: count positions in all top terms (as a bag); we count per (k, top index, path) via flattening
      RECURSIVE Count(_, _)
      Count(t, v) == IF t = v THEN 1 ELSE IF t.op = "app" THEN
                        (LET RECURSIVE S(_) S(i) == IF i > Len(t.args) THEN 0 ELSE Count(t.args[i], v) + S(i+1) IN S(1)) ELSE 0
      total(v) == LET RECURSIVE K(_) K(k) == IF k > n THEN 0 ELSE
                        (LET tp == Tops(prog[k].a, k) RECURSIVE I(_) I(i) == IF i > Len(tp) THEN 0 ELSE Count(tp[i], v) + I(i+1) IN I(1)) + K(k+1)
                  IN K(1)
      allVars == {t \in U : t.op = "var"}
      usedOnce == {<<"UsedOnce", k>> : k \in {k \in 1..n : \E v \in varsOf(k) : total(v) = 1}}
      \* ---------- types
      cl == Closure(UNION {StmtEqs(prog, k) : k \in 1..n}, U)
      class(t) == {s \in U : <<t, s>> \in cl}
      direct(t) ==  (IF t.op = "app" THEN {Fn[t.f].cod} ELSE {})
               \cup {Fn[s.f].dom[i] : <<s, i>> \in {si \in {s \in U : s.op = "app"} \X (1..2) : si[2] \in DOMAIN si[1].args /\ si[1].args[si[2]] = t}}
               \cup UNION { LET a == prog[k].a tp == Tops(a, k) IN
                              CASE a.t = "pred" -> {PredAr[a.p][i] : i \in {i \in DOMAIN tp : tp[i] = t}}
                                [] a.t = "vt" -> IF a.v = t THEN {a.ty} ELSE {}
                                [] OTHER -> {} : k \in 1..n }
      types(t) == UNION {direct(s) : s \in class(t)}
      conflict == {<<"ConflictingType", k>> : k \in {k \in 1..n : \E t \in StmtSub(prog, k) : Cardinality(types(t)) > 1}}
      undet == {<<"UndeterminedType", k>> : k \in {k \in 1..n : \E t \in StmtSub(prog, k) : types(t) = {}}}
      enumDef == {<<"EnumNotCtor", k>> : k \in {k \in 1..n : isThen(k) /\ prog[k].a.t = "def" /\
                      LET tm == Tops(prog[k].a, k)[1] IN types(tm) \cap EnumTypes # {} /\ ~(tm.op = "app" /\ tm.f \in Ctors)}}
  IN varIntro \cup wildThen \cup defNotNew \cup surj \cup usedOnce \cup conflict \cup undet \cup enumDef


(* ---------------- structured rules: branch ... along ... ---------------- *)
(* A structured program is a sequence of items; an item is a simple statement [k, a] or
   [k |-> "branch", bs |-> sequence of blocks], a block being a sequence of simple statements.
   The language's meaning of a branch statement (eqlog.eql: entry/exit scopes of blocks,
   cfg_edge_fork / cfg_edge_join): every block is entered in the scope and with the facts of the
   statements before the branch; variables introduced inside a block are local to it; the statements
   after the branch run after *every* block, under what that block queried and asserted.  Hence the
   reference verdict is computed on the control-flow paths: block-local variables are renamed apart,
   every choice of one block per branch gives a flat rule, Errors of each such flat rule are mapped
   back to the statement they belong to; "used once" counts occurrences over the whole rule. *)
VarsOfTerm(t) == {u \in Sub(t) : u.op = "var"}
VarsOfAtom(a) ==
  CASE a.t = "pred" -> UNION {VarsOfTerm(a.args[i]) : i \in DOMAIN a.args}
    [] a.t = "eq"   -> VarsOfTerm(a.l) \cup VarsOfTerm(a.r)
    [] a.t = "def"  -> VarsOfTerm(a.tm) \cup (IF a.v = NoVar THEN {} ELSE {a.v})
    [] a.t = "vt"   -> {a.v}
\* [k |-> "match", tm |-> term, cs |-> sequence of [pat |-> constructor application, blk |-> block]] is the
\* branch whose b-th block is `if tm = pat_b;` followed by blk_b; the variables of tm belong to the
\* enclosing scope (scopes_stmt_match: the cases are entered in the exit scope of the term)
IsBranch(it) == it.k \in {"branch", "match"}
BlocksOf(it) == IF it.k = "branch" THEN it.bs
                ELSE [b \in DOMAIN it.cs |-> <<[k |-> "if", a |-> [t |-> "eq", l |-> it.tm, r |-> it.cs[b].pat]]>> \o it.cs[b].blk]
OwnVars(it) == IF it.k = "match" THEN VarsOfTerm(it.tm) ELSE IF it.k = "branch" THEN {} ELSE VarsOfAtom(it.a)
VarsOfStmts(ss) == UNION {VarsOfAtom(ss[i].a) : i \in DOMAIN ss}
\* variables in scope at item i: those of the simple statements before it
ScopeAt(P, i) == UNION {OwnVars(P[j]) : j \in 1..(i - 1)} \cup (IF P[i].k = "match" THEN VarsOfTerm(P[i].tm) ELSE {})
RECURSIVE RenT(_, _, _)
RenT(t, L, sfx) == CASE t.op = "var" -> IF t \in L THEN V(t.n \o sfx) ELSE t
                     [] t.op = "app" -> [t EXCEPT !.args = [i \in DOMAIN t.args |-> RenT(t.args[i], L, sfx)]]
                     [] OTHER -> t
RenA(a, L, sfx) ==
  CASE a.t = "pred" -> [a EXCEPT !.args = [i \in DOMAIN a.args |-> RenT(a.args[i], L, sfx)]]
    [] a.t = "eq"   -> [a EXCEPT !.l = RenT(a.l, L, sfx), !.r = RenT(a.r, L, sfx)]
    [] a.t = "def"  -> [a EXCEPT !.tm = RenT(a.tm, L, sfx), !.v = IF a.v = NoVar THEN NoVar ELSE RenT(a.v, L, sfx)]
    [] a.t = "vt"   -> [a EXCEPT !.v = RenT(a.v, L, sfx)]
Block(P, i, b) ==  \* block b of branch item i with its local variables renamed apart
  LET ss == BlocksOf(P[i])[b]
      L == VarsOfStmts(ss) \ ScopeAt(P, i)
      sfx == "@" \o ToString(i) \o "_" \o ToString(b)
  IN [j \in DOMAIN ss |-> [k |-> ss[j].k, a |-> RenA(ss[j].a, L, sfx)]]
Off(it) == IF it.k = "match" THEN 1 ELSE 0    \* origin <<i, b, 0>> is the case line `pat => {`
Branches(P) == {i \in DOMAIN P : IsBranch(P[i])}
Choices(P) == {c \in [Branches(P) -> 1..3] : \A i \in Branches(P) : c[i] \in DOMAIN BlocksOf(P[i])}
RECURSIVE PathFrom(_, _, _)
\* <<flat statements, origins>>; an origin is <<item, block, index in block>> (block = 0 for a simple item)
PathFrom(P, c, i) ==
  IF i > Len(P) THEN <<<<>>, <<>>>>
  ELSE LET rest == PathFrom(P, c, i + 1) IN
       IF IsBranch(P[i])
       THEN LET blk == Block(P, i, c[i]) IN <<blk \o rest[1], [j \in DOMAIN blk |-> <<i, c[i], j - Off(P[i])>>] \o rest[2]>>
       ELSE <<<<P[i]>> \o rest[1], <<<<i, 0, 0>>>> \o rest[2]>>
RECURSIVE AllFrom(_, _)
AllFrom(P, i) ==
  IF i > Len(P) THEN <<<<>>, <<>>>>
  ELSE LET rest == AllFrom(P, i + 1) IN
       IF IsBranch(P[i])
       THEN LET RECURSIVE Bs(_) Bs(b) == IF b > Len(BlocksOf(P[i])) THEN <<<<>>, <<>>>>
                                        ELSE LET blk == Block(P, i, b) r == Bs(b + 1)
                                             IN <<blk \o r[1], [j \in DOMAIN blk |-> <<i, b, j - Off(P[i])>>] \o r[2]>>
                r0 == Bs(1)
            IN <<r0[1] \o rest[1], r0[2] \o rest[2]>>
       ELSE <<<<P[i]>> \o rest[1], <<<<i, 0, 0>>>> \o rest[2]>>
\* scope- and existence-related defects are defects of a control-flow path; occurrence counts and types
\* are attributes of the rule as a whole (an element of the structure before a branch has one type, whichever
\* block constrains it: the compiler reports `if x = y; branch { if p(x); } along { if q(_, y); }` as conflicting)
PathClasses == {"VarIntroducedInThen", "WildcardInThen", "ThenDefinedVarNotNew", "Surjectivity"}
\* the occurrence view of a rule: every term as often as it is written - the term of a match statement
\* once (at the match line), every pattern once (at its case line)
RECURSIVE OccFrom(_, _)
OccFrom(P, i) ==
  IF i > Len(P) THEN <<<<>>, <<>>>>
  ELSE LET rest == OccFrom(P, i + 1) IN
       IF P[i].k = "match"
       THEN LET Q(t) == [k |-> "if", a |-> [t |-> "def", v |-> NoVar, tm |-> t]]
                RECURSIVE Cs(_) Cs(b) == IF b > Len(P[i].cs) THEN <<<<>>, <<>>>>
                                         ELSE LET blk == Block(P, i, b) r == Cs(b + 1)   \* blk[1] is `tm = pat` (renamed)
                                              IN <<<<Q(blk[1].a.r)>> \o Tail(blk) \o r[1],
                                                   <<<<i, b, 0>>>> \o [j \in 1..(Len(blk) - 1) |-> <<i, b, j>>] \o r[2]>>
                r0 == Cs(1)
            IN <<<<Q(P[i].tm)>> \o r0[1] \o rest[1], <<<<i, 0, 0>>>> \o r0[2] \o rest[2]>>
       ELSE IF P[i].k = "branch"
       THEN LET RECURSIVE Bs(_) Bs(b) == IF b > Len(P[i].bs) THEN <<<<>>, <<>>>>
                                        ELSE LET blk == Block(P, i, b) r == Bs(b + 1)
                                             IN <<blk \o r[1], [j \in DOMAIN blk |-> <<i, b, j>>] \o r[2]>>
                r0 == Bs(1)
            IN <<r0[1] \o rest[1], r0[2] \o rest[2]>>
       ELSE <<<<P[i]>> \o rest[1], <<<<i, 0, 0>>>> \o rest[2]>>
ErrorsS(P) ==
  LET perPath == UNION { LET pf == PathFrom(P, c, 1) IN
                         { <<e[1], pf[2][e[2]]>> : e \in {e \in Errors(pf[1]) : e[1] \in PathClasses} } : c \in Choices(P) }
      af == AllFrom(P, 1)
      whole == { <<e[1], af[2][e[2]]>> : e \in {e \in Errors(af[1]) : e[1] \notin PathClasses \cup {"UsedOnce"}} }
      oc == OccFrom(P, 1)
      once == { <<e[1], oc[2][e[2]]>> : e \in {e \in Errors(oc[1]) : e[1] = "UsedOnce"} }
      \* match statements: every constructor of the enum needs a case; pattern variables must be fresh
      matchErr == UNION { IF P[i].k # "match" THEN {} ELSE
                          (IF {P[i].cs[b].pat.f : b \in DOMAIN P[i].cs} = Ctors THEN {} ELSE {<<"MatchNotExhaustive", <<i, 0, 0>>>>})
                          \cup { <<"MatchVarNotFresh", <<i, b, 0>>>> : b \in {b \in DOMAIN P[i].cs : VarsOfTerm(P[i].cs[b].pat) \cap ScopeAt(P, i) # {}} }
                        : i \in DOMAIN P }
  IN perPath \cup whole \cup once \cup matchErr

(* ---------------- program space of the probe ---------------- *)
x == V("x")  y == V("y")
TP == {x, y, W, Ap("c", <<>>), Ap("f", <<x>>), Ap("f", <<y>>), Ap("f", <<Ap("f", <<x>>)>>), Ap("g", <<x, y>>),
       Ap("h", <<x>>), Ap("Cons", <<x>>), Ap("Nil", <<>>)}
QA == {x, y, W, Ap("f", <<x>>)}
EQT == {x, y, Ap("f", <<x>>), Ap("f", <<y>>), Ap("c", <<>>), Ap("g", <<x, y>>), Ap("h", <<x>>), Ap("Cons", <<x>>)}
DT == {t \in TP : t.op = "app"}
PredAtoms == {[t |-> "pred", p |-> "p", args |-> <<a>>] : a \in TP}
        \cup {[t |-> "pred", p |-> "q", args |-> <<a, b>>] : a \in QA, b \in QA}
        \cup {[t |-> "pred", p |-> "z", args |-> <<>>]}
EqAtoms == {[t |-> "eq", l |-> a, r |-> b] : a \in EQT, b \in EQT}
IfAtoms == PredAtoms \cup EqAtoms \cup {[t |-> "def", v |-> NoVar, tm |-> a] : a \in DT}
           \cup {[t |-> "vt", v |-> v, ty |-> ty] : v \in {x, y}, ty \in {"A", "B", "E"}}
ThenAtoms == PredAtoms \cup EqAtoms \cup {[t |-> "def", v |-> v, tm |-> a] : v \in {NoVar, x, y}, a \in DT}
Stmts == {[k |-> "if", a |-> a] : a \in IfAtoms} \cup {[k |-> "then", a |-> a] : a \in ThenAtoms}
====
