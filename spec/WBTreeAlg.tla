------------------------------ MODULE WBTreeAlg ------------------------------
(***************************************************************************)
(* Design-level check of the tree algorithms (C14): two trees a, b evolve  *)
(* under insert / remove / union / difference (with every possible filter  *)
(* outcome) over keys 0..N-1; every reachable pair satisfies Ok and the    *)
(* height bound, and the key sets are what OrdMap's contract says.         *)
(***************************************************************************)
EXTENDS WBTreeOps
CONSTANT N
VARIABLES a, b
K == 0..(N-1)
Init == a = Nil /\ b = Nil
Next == \/ \E k \in K : a' = Ins(a, k) /\ b' = b
        \/ \E k \in K : Has(a, k) /\ a' = Rem(a, k) /\ b' = b
        \/ \E k \in K : b' = Ins(b, k) /\ a' = a
        \/ \E k \in K : Has(b, k) /\ b' = Rem(b, k) /\ a' = a
        \/ a' = Union(a, b) /\ b' = b
        \/ b' = Union(b, a) /\ a' = a
        \/ \E D \in SUBSET (Keys(a) \cap Keys(b)) : a' = DiffF(a, b, D) /\ b' = b
        \/ \E D \in SUBSET (Keys(a) \cap Keys(b)) : b' = DiffF(b, a, D) /\ a' = a
Spec == Init /\ [][Next]_<<a, b>>
Inv == Ok(a) /\ Ok(b) /\ HeightOk(a) /\ HeightOk(b)
\* refinement of the contract, as action properties on the key sets
Refines == [][ /\ Keys(a') \in { Keys(a) \cup {k} : k \in K } \cup { Keys(a) \ {k} : k \in K }
                               \cup { Keys(a) \cup Keys(b) } \cup { Keys(a) \ D : D \in SUBSET (Keys(a) \cap Keys(b)) }
               /\ Keys(b') \in { Keys(b) \cup {k} : k \in K } \cup { Keys(b) \ {k} : k \in K }
                               \cup { Keys(a) \cup Keys(b) } \cup { Keys(b) \ D : D \in SUBSET (Keys(a) \cap Keys(b)) } ]_<<a, b>>
UnionOk == Ok(Union(a, b)) /\ Keys(Union(a, b)) = Keys(a) \cup Keys(b)
DiffOk == \A D \in SUBSET (Keys(a) \cap Keys(b)) : Ok(DiffF(a, b, D)) /\ Keys(DiffF(a, b, D)) = Keys(a) \ D
=============================================================================
