SPECIFICATION Spec
CONSTANTS
  MaxLen = 5
  KeepTerminators = FALSE
  EofFallback = FALSE
INVARIANTS NoPanic ContentOk RightLine
CHECK_DEADLOCK FALSE
