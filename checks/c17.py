"""C17 - member relations are inherited along morphisms like ordinary facts.
Inheritance is part of the reference semantics as implicit stages (tools/eql.py
inheritance_stages); ApiTrace then checks closedness, freeness (nothing inherited between
unconnected objects) and - on families - independence of when morphisms, their dom/cod and the
facts arrive relative to each other and to closes."""
import histories
import modelcheck

PROP = "C17"


def make_plan(ths, tier, rnd):
    plan = modelcheck.Plan()
    thorough = tier == "thorough"
    fam = 0
    for theory, (sig, stages) in modelcheck.select(ths, PROP, tier):
        if not sig.models:
            continue
        api = histories.api_of(sig, modelcheck.module_path(theory))
        for _ in range(150 if thorough else 30):
            fam += 1
            for steps in histories.family_c17(sig, api, rnd, rnd.randint(3, 8), 6 if thorough else 3):
                plan.add(theory, steps, fam)
    return plan


def run(tier, replay):
    return modelcheck.run(PROP, tier, replay, make_plan, panic_props=("C17",), also_props=("C01", "C02"),
                          explanation="one model declaration with a member predicate, two object constants, global rules; "
                                      "families of one fact set (member facts + dom/cod facts of an acyclic functional "
                                      "morphism graph) asserted in different orders with closes in between")
