"""C17 - member relations are inherited along morphisms like ordinary facts.
Inheritance is part of the reference semantics as implicit stages (tools/eql.py
inheritance_stages); ApiTrace then checks closedness, freeness (nothing inherited between
unconnected objects) and - on families - independence of when morphisms, their dom/cod and the
facts arrive relative to each other and to closes."""
import histories
import modelcheck

PROP = "C17"


def make_plan(ths, tier, rnd):
    plan = modelcheck.Plan()
    thorough = tier == "thorough"
    fam = 0
    for theory, (sig, stages) in modelcheck.select(ths, PROP, tier):
        if not sig.models:
            continue
        api = histories.api_of(sig, modelcheck.module_path(theory))
        for _ in range(50 if thorough else 30):
            fam += 1
            for steps in histories.family_c17(sig, api, rnd, rnd.randint(3, 8), 4 if thorough else 3):
                plan.add(theory, steps, fam)
    return plan


def design_reproduction():
    """EqlogEval with member relations (own/all copies recomputed per age) on a one-rule model theory:
    TLC finds the duplicate of KF-C04-1 / the missing consequence of KF-C17-1 as counterexamples of
    the design itself.  Returns a short record for the evidence; it never affects the verdict."""
    import os
    import shutil
    import eql
    import mcgen
    import vlib
    d = vlib.workdir("c17-design")
    os.makedirs(os.path.join(d, "in"))
    shutil.copyfile(os.path.join(vlib.VERIF, "theories_design", "inhs.eql"), os.path.join(d, "in", "inhs.eql"))
    r0 = vlib.run([os.path.join(vlib.BIN, "eqlogc"), os.path.join(d, "in"), os.path.join(d, "out")])
    if r0.returncode != 0:
        return {"error": "theory inhs rejected"}
    sig, st = eql.load(os.path.join(d, "in", "inhs.eql"))
    try:
        r = mcgen.eval_model_check("inhs", sig, st, os.path.join(d, "out", "inhs.eql.rs"), "c17-design-eval", allow_violation=True,
                                   workers=8, maxels=2, maxid=2, maxasserts=4, invariants="NoDupAtObs RefinesApi", timeout=2400)
    except vlib.ToolError as e:
        return {"error": str(e)[:200]}
    return {"states": r["distinct"], "violated": r["violated"],
            "meaning": "the faithful design (ALL copies recomputed per age from OWN copies) violates these invariants: "
                       "the recorded findings KF-C04-1 / KF-C17-1 are properties of the algorithm, not of one code path"}


def run(tier, replay):
    if tier == "thorough" and replay is None:
        import json
        import os
        import vlib
        os.makedirs(vlib.WORK, exist_ok=True)
        with open(os.path.join(vlib.WORK, "c17_design.json"), "w") as f:
            json.dump(design_reproduction(), f)
    return modelcheck.run(PROP, tier, replay, make_plan, panic_props=("C17",), also_props=("C01", "C02"),
                          explanation="one model declaration with a member predicate, two object constants, global rules; "
                                      "families of one fact set (member facts + dom/cod facts of an acyclic functional "
                                      "morphism graph) asserted in different orders with closes in between")
