"""C02 - close() derives only what the rules force: the closed model is the free model.
Decided by ApiTrace at every close_ret(false): Structure!SoundBad compares the dumped model with
the term-named stratified reference chase along the class correspondence Phi (no extra element,
no extra equality, no extra tuple)."""
import histories
import modelcheck

PROP = "C02"
SIZE = {"poset": 3, "semilattice": 2, "pend": 2, "diag": 2}


def make_plan(ths, tier, rnd):
    plan = modelcheck.Plan()
    thorough = tier == "thorough"
    for theory, (sig, stages) in modelcheck.select(ths, PROP, tier):
        api = histories.api_of(sig, modelcheck.module_path(theory))
        n = SIZE.get(theory, 2)
        for _ in range(80 if thorough else 40):
            plan.add(theory, histories.random_history(sig, api, rnd, (8 if theory == 'joins' else 0) + rnd.randint(3, 12), n, p_until=0.05))
    modelcheck.add_generated_programs(plan, rnd, 16 if thorough else 4, 8, PROP)
    return plan


def run(tier, replay):
    return modelcheck.run(PROP, tier, replay, make_plan,
                          explanation="seeded random histories per corpus theory (repeated variables, premise equalities, "
                                      "`!`, enums, models); oracle: soundness of the dumped closed model w.r.t. the reference chase")
