"""C08 - tuple containers behave as ordered sets of fixed-arity tuples.

TLC explores the contract (PrefixTree.tla: laws, clone independence) for arities 0..3 and emits
every operation sequence of the small scope; those and seeded random sequences for every arity
0..9 are executed on the real PrefixTreeN; TLC validates the recorded traces against
PrefixTreeTrace (set contract, sorted duplicate-free iteration, is_empty <=> no tuple, prefix
lookup / prefix iteration exact, clones independent, top-level map balanced)."""
import os
import vlib
import gen_ops

PROP = "C08"
LEVEL = "model_checking"


def execute_and_validate(v, cases, name):
    d = vlib.workdir(name)
    ops = os.path.join(d, "ops.ndjson")
    trace = os.path.join(d, "trace.ndjson")
    vlib.write_ndjson(ops, cases)
    r = vlib.run([os.path.join(vlib.BIN, "rt-driver"), "pt", ops, trace], timeout=1200)
    if r.returncode != 0:
        raise vlib.ToolError("rt-driver failed: " + r.stderr[-2000:])
    res = vlib.validate_trace("PrefixTreeTrace", trace, name=name)
    byid = {c["id"]: c for c in cases}
    seen = set()
    for viol in res["viol"]:
        if viol["id"] in seen:
            continue
        seen.add(viol["id"])
        v.violation(f"{viol['what']} (trace line {viol['line']})", {"kind": "pt", "case": byid[viol["id"]]})
    return res


def run(tier, replay):
    v = vlib.Verdict(PROP, tier, LEVEL)
    vlib.cargo_build(["rt-driver"])
    if replay is not None:
        res = execute_and_validate(v, [replay["replay"]["case"]], "c08-replay")
        v.coverage = {"states": res["_states"], "transitions": res["_generated"], "traces_validated_against_impl": 1,
                      "samples": [replay["replay"]["case"]]}
        return v.finish()
    thorough = tier == "thorough"
    cases = []
    design = {}
    gen = 0
    dist = 0
    for n in ([0, 1, 2, 3] if thorough else [0, 1, 2]):
        mc = vlib.tlc("MCPrefixTree", name=f"c08-gen{n}", workers=4, cfg=f"MCPrefixTree_{n}")
        design[f"arity{n}"] = mc["distinct"]
        gen += mc["generated"]
        dist += mc["distinct"]
        for ops in mc["prints"].get("REPLAY", []):
            cases.append({"id": len(cases) + 1, "nh": 2, "n": n, "ops": ops})
    # pinned witnesses of repaired findings stay in the regression set
    for kf in vlib.known_findings():
        w = kf.get("witness")
        if PROP in kf.get("properties", []) and isinstance(w, dict) and w.get("kind") == "pt":
            c = dict(w["case"])
            c["id"] = len(cases) + 1
            cases.append(c)
    res1 = execute_and_validate(v, cases, "c08-exh")
    rnd = []
    for n in range(0, 10):
        rnd += gen_ops.pt_cases(vlib.seed(), n, 40 if thorough else 8, 120 if thorough else 60,
                                4 if n <= 3 else 3, 3, first_id=len(cases) + len(rnd) + 1)
    res2 = execute_and_validate(v, rnd, "c08-rnd")
    v.coverage = {
        "states": dist + res1["_states"] + res2["_states"],
        "transitions": gen + res1["_generated"] + res2["_generated"],
        "traces_validated_against_impl": len(cases) + len(rnd),
        "samples": [cases[len(cases) // 2], {"id": rnd[-1]["id"], "n": 9, "nh": 3, "ops": rnd[-1]["ops"][:6], "note": "first 6 ops"}],
        "design_states": design,
        "exhaustive_sequences": len(cases),
        "random_sequences": len(rnd),
        "trace_events": res1["events"] + res2["events"],
        "exhaustive": False,
        "explanation": "contract PrefixTree.tla explored by TLC per arity; every operation sequence of that scope "
                       "(2 handles, universe {0,1}, 2 operations) and seeded random sequences on arities 0..9 executed on "
                       "the real containers; traces validated by PrefixTreeTrace",
    }
    v.assumptions = ["TLC, Json/IOUtils community modules", "rt-driver records faithfully"]
    return v.finish()
