"""Shared pipeline of the generated-model checks (C01-C07, C15, C17): build the compiler and the
model driver from /repo, obtain histories (TLC-enumerated via ApiGen, seeded random, families),
execute them on the real generated code, validate the recorded traces with the ApiTrace monitor,
and report the violations of the property the calling check stands for."""
import json
import os
import random

import histories
import mcgen
import theories
import vlib


class Plan:
    """what one check wants to run: {theory: [ {"steps": [...], "fam": int} ... ]} plus TLC generator results"""

    def __init__(self):
        self.by_theory = {}
        self.gen_states = 0
        self.gen_transitions = 0
        self.notes = {}
        self.maxels = {}

    def add(self, theory, steps, fam=-1):
        self.by_theory.setdefault(theory, []).append({"steps": steps, "fam": fam})

    def add_gen(self, r):
        self.gen_states += r["distinct"]
        self.gen_transitions += r["generated"]


def module_path(theory):
    return os.path.join(theories.GEN_OUT, theory + ".eql.rs")


def classify_known(prop, viol, hist, theory, kfs):
    """returns the known-finding record that explains this violation, or None"""
    for kf in kfs:
        if kf.get("kind") != "known" or prop not in kf.get("properties", [kf.get("property")]):
            continue
        c = kf["classifier"]
        if "theories" in c and theory not in c["theories"]:
            continue
        if "what_contains" in c and not any(w in viol["what"] for w in c["what_contains"]):
            continue
        if "history" in c and not history_matches(c["history"], hist):
            continue
        return kf
    return None


def history_matches(pat, hist):
    steps = hist["steps"]
    ops = [s["op"] for s in steps]
    if pat == "early_return_then_close":
        # a close_until that may stop early (stop >= 0 or a condition) is followed by another close
        for i, s in enumerate(steps):
            if s["op"] == "close_until" and (s.get("stop", -1) >= 0 or s.get("cond")):
                if any(o in ("close", "close_until") for o in ops[i + 1:]):
                    return True
        return False
    if pat == "morphism_fact_after_close":
        seen_close = False
        for s in steps:
            if s["op"] in ("close", "close_until"):
                seen_close = True
            elif seen_close and s["op"] in ("insert", "define", "equate", "new"):
                return True
        return False
    if pat == "any":
        return True
    raise vlib.ToolError(f"unknown history pattern {pat}")


def run(prop, tier, replay, make_plan, level="model_checking", panic_props=("C01",), explanation=""):
    v = vlib.Verdict(prop, tier, level)
    ths = theories.prepare()
    rnd = random.Random(vlib.seed())
    if replay is not None:
        plan = Plan()
        rp = replay["replay"]
        plan.add(rp["theory"], rp["steps"], rp.get("fam", -1))
        for extra in rp.get("family", []):
            plan.add(rp["theory"], extra, rp.get("fam", -1))
    else:
        plan = make_plan(ths, tier, rnd)
    kfs = vlib.known_findings()
    states = plan.gen_states
    transitions = plan.gen_transitions
    ntraces = 0
    nevents = 0
    stats_all = {}
    samples = []
    for theory, hs in sorted(plan.by_theory.items()):
        sig, stages = ths[theory]
        d = vlib.workdir(f"{prop.lower()}-{theory}")
        hpath = os.path.join(d, "histories.ndjson")
        tpath = os.path.join(d, "trace.ndjson")
        rows = []
        for i, h in enumerate(hs):
            rows.append({"id": i + 1, "theory": theory, "fam": h["fam"], "steps": h["steps"]})
        vlib.write_ndjson(hpath, rows)
        r = vlib.run([os.path.join(vlib.BIN, "model-driver"), hpath, tpath], timeout=1800)
        if r.returncode != 0:
            raise vlib.ToolError(f"model-driver failed on {theory}: {r.stderr[-2000:]}")
        res = mcgen.validate_api_trace(theory, sig, stages, module_path(theory), tpath, f"{prop.lower()}-{theory}-mon",
                                       maxels=plan.maxels.get(theory, 9))
        vlib.log(f"[{prop}] {theory}: {len(rows)} histories, {res['events']} events, monitor {res['_wall']:.1f}s, "
                 f"closes {res['stats']['closes']} (inconclusive {res['stats']['inconclusive']})")
        states += res["_states"]
        transitions += res["_generated"]
        ntraces += len(rows)
        nevents += res["events"]
        stats_all[theory] = res["stats"]
        if rows:
            samples.append({"theory": theory, "steps": rows[len(rows) // 2]["steps"]})
        byid = {row["id"]: row for row in rows}
        reported = set()
        for viol in res["viol"]:
            p = viol["prop"]
            if p == "PANIC":
                if prop not in panic_props:
                    continue
            elif p != prop:
                continue
            hist = byid[viol["id"]]
            key = (viol["id"], viol["what"])
            kf = classify_known(prop, viol, hist, theory, kfs)
            if kf is not None:
                v.known_finding(kf, f"(theory {theory}: {viol['what']})")
                continue
            if viol["id"] in reported:
                continue
            reported.add(viol["id"])
            fam = [h2["steps"] for h2 in rows if hist["fam"] >= 0 and h2["fam"] == hist["fam"] and h2["id"] < hist["id"]][:1]
            v.violation(f"{theory}: {viol['what']} (trace line {viol['line']})",
                        {"theory": theory, "steps": hist["steps"], "fam": hist["fam"], "family": fam})
    v.coverage = {
        "states": max(states, 1),
        "transitions": max(transitions, 1),
        "traces_validated_against_impl": ntraces,
        "samples": samples[:3] or [{"note": "no history"}],
        "trace_events": nevents,
        "monitor_stats": stats_all,
        "theories": sorted(plan.by_theory),
        "generator_states": plan.gen_states,
        "notes": plan.notes,
        "exhaustive": False,
        "explanation": explanation,
    }
    v.assumptions = ["TLC, Json/IOUtils community modules", "reference stages computed by tools/eql.py (independent front end)",
                     "model-driver records faithfully; private index fields read by an impl included next to the generated module"]
    return v.finish()
