"""Shared pipeline of the generated-model checks (C01-C07, C15, C17): build the compiler and the
model driver from /repo, obtain histories (TLC-enumerated via ApiGen, seeded random, families),
execute them on the real generated code, validate the recorded traces with the ApiTrace monitor,
and report the violations of the property the calling check stands for."""
import json
import os
import random
import re

import histories
import mcgen
import theories
import vlib


class Plan:
    """what one check wants to run: {theory: [ {"steps": [...], "fam": int} ... ]} plus TLC generator results"""

    def __init__(self):
        self.by_theory = {}
        self.gen_states = 0
        self.gen_transitions = 0
        self.notes = {}
        self.maxels = {}
        self.external = {}    # theory -> (sig, stages, module path, driver binary) for programs outside the corpus

    def add(self, theory, steps, fam=-1):
        self.by_theory.setdefault(theory, []).append({"steps": steps, "fam": fam})

    def add_gen(self, r):
        self.gen_states += r["distinct"]
        self.gen_transitions += r["generated"]


QUICK_THEORIES = {
    "C01": ["poset", "semilattice", "pend", "diag", "diagjoin", "misc", "enumt", "inherit", "branches", "joins", "manyvars"],
    "C02": ["poset", "semilattice", "pend", "diag", "diagall", "eqchain", "misc", "enumt", "inherit", "joins"],
    "C03": ["poset", "pend", "diag", "diagjoin", "misc", "inherit", "trans_refl", "joins"],
    "C04": ["poset", "semilattice", "diag", "diagjoin", "diagall", "backidx", "misc", "enumt", "inherit", "joins"],
    "C05": ["poset", "semilattice", "diag", "backidx", "misc", "enumt", "matches"],
    "C06": ["poset", "diag", "trans_refl", "branches", "logic", "unusedty"],
    "C07": ["poset", "semilattice", "pend", "misc", "inherit"],
    "C15": ["enumt", "matches", "matches_rel"],
    "C17": ["inherit", "subset_rules"],
}


def select(ths, prop, tier):
    """the corpus theories a check uses: a fixed subset in the quick tier; the thorough tier adds the four
    corpus theories after them in alphabetical order (and more histories per theory)"""
    if prop not in QUICK_THEORIES:
        names = sorted(ths)
    else:
        names = [n for n in QUICK_THEORIES[prop] if n in ths]
        if tier == "thorough":
            names += [n for n in sorted(ths) if n not in names][:4]
    return [(n, ths[n]) for n in names]


def module_path(theory):
    return os.path.join(theories.GEN_OUT, theory + ".eql.rs")


def static_match(prop, viol, hist, theory, sig, kf):
    if kf.get("kind") != "known" or prop not in kf.get("properties", []):
        return False
    c = kf["classifier"]
    if c.get("needs_model") and not sig.models:
        return False
    if "theories" in c and theory not in c["theories"]:
        return False
    if "what_regex" in c and not re.search(c["what_regex"], viol["what"]):
        return False
    return True


def counterfactual_history(kind, sig, steps):
    """the history rewritten so that the known defect's trigger is absent"""
    if kind == "morphism_facts_first":
        # all dom/cod facts directly after the creation prefix, i.e. before any close and before any
        # member fact: the morphism graph is complete when the first tuple arrives
        i = 0
        while i < len(steps) and steps[i]["op"] in ("new", "define", "new_enum"):
            i += 1
        pre, rest = steps[:i], steps[i:]
        mor = [s for s in rest if s["op"] == "insert" and re.search(r"_mor_(dom|cod)$", s["rel"])]
        other = [s for s in rest if not (s["op"] == "insert" and re.search(r"_mor_(dom|cod)$", s["rel"]))]
        return pre + mor + other
    raise vlib.ToolError(f"unknown counterfactual {kind}")


def cex_steps(cx, sig):
    """a call history printed by EqlogEval (element ids) as driver steps (handles: the k-th element
    of a type the caller created); None if it mentions an element the caller did not create"""
    handles = {}
    steps = []

    def h(ty, i):
        return handles.get(ty, []).index(i) if i in handles.get(ty, []) else None
    for o in cx["ops"]:
        if o["op"] == "new":
            handles.setdefault(o["ty"], []).append(o["id"])
            steps.append({"op": "new", "ty": o["ty"]})
        elif o["op"] == "insert":
            args = [h(c, i) for c, i in zip(sig.rels[o["rel"]]["cols"], o["args"])]
            if None in args:
                return None
            steps.append(histories.step_insert(o["rel"], args))
        elif o["op"] == "equate":
            a, b = h(o["ty"], o["a"]), h(o["ty"], o["b"])
            if a is None or b is None:
                return None
            steps.append({"op": "equate", "ty": o["ty"], "a": a, "b": b})
        elif o["op"] == "close":
            steps.append({"op": "close"})
        else:
            steps.append({"op": "close_until", "stop": o["stop"]})
    if cx.get("pc") != "idle":
        steps.append({"op": "close_until", "stop": cx.get("nobs", 0)})
    if steps and steps[-1]["op"] != "close":
        steps.append({"op": "close"})
    return steps


def run(prop, tier, replay, make_plan, level="model_checking", panic_props=("C01",), explanation="", also_props=(), design=(), extra=None):
    v = vlib.Verdict(prop, tier, level)
    ths = theories.prepare()
    rnd = random.Random(vlib.seed())
    if replay is not None:
        plan = Plan()
        rp = replay["replay"]
        plan.add(rp["theory"], rp["steps"], rp.get("fam", -1))
        for extra in rp.get("family", []):
            plan.add(rp["theory"], extra, rp.get("fam", -1))
    else:
        plan = make_plan(ths, tier, rnd)
    kfs = vlib.known_findings()
    design_info = {}
    if replay is None:
        # design level: EqlogEval instantiated with corpus theories (refinement of the contract)
        for theory, kw in design:
            kw = dict(kw)
            if tier != "thorough":
                kw.pop("thorough_only", None)
            elif "thorough_only" in kw:
                kw.update(kw.pop("thorough_only"))
            sig, stages = ths[theory]
            tag = theory + ("+plan" if kw.get("plan") else "")
            # with the plan EXTRACTED from the generated module a refinement failure is a statement
            # about an emitted artefact: TLC's counterexample (a call history) is replayed on the
            # generated code below, and only what the real code then does can become a violation
            r = mcgen.eval_model_check(theory, sig, stages, module_path(theory), f"{prop.lower()}-eval-{tag.replace('+', '-')}",
                                       allow_violation=bool(kw.get("plan")), cex=bool(kw.get("plan")), **kw)
            plan.gen_states += r["distinct"]
            plan.gen_transitions += r["generated"]
            design_info[tag] = {"EqlogEval_states": r["distinct"], "bounds": {k: x for k, x in kw.items() if k != "workers"},
                                "plan_rules": r.get("plan_rules", 0), "violated": r["violated"], "counterexamples_replayed": 0,
                                "action_coverage": r.get("actions", {}),
                                "actions_never_taken": sorted(a for a, c in r.get("actions", {}).items() if c[1] == 0)}
            if r["violated"]:
                for cx in r["prints"].get("CEX", [])[:8]:
                    steps = cex_steps(cx, sig)
                    if steps is not None:
                        plan.add(theory, steps, -1)
                        design_info[tag]["counterexamples_replayed"] += 1
                vlib.log(f"[{prop}] design run {tag}: {r['violated']} - {design_info[tag]['counterexamples_replayed']} counterexample(s) "
                         "handed to the replay on the generated code (a disagreement confined to the design model is drift)")
    if replay is None:
        # the pinned witnesses of recorded and repaired findings of this property are always run
        wfam = 10 ** 6
        for kf in kfs:
            w = kf.get("witness")
            if prop in kf.get("properties", []) and isinstance(w, dict) and "members" in w and w["theory"] in ths:
                wfam += 1
                for steps in w["members"]:
                    plan.add(w["theory"], steps, wfam)
    states = plan.gen_states
    transitions = plan.gen_transitions
    ntraces = 0
    nevents = 0
    stats_all = {}
    samples = []
    for theory, hs in sorted(plan.by_theory.items()):
        if theory in plan.external:
            sig, stages, mpath, binary = plan.external[theory]
        else:
            sig, stages = ths[theory]
            mpath, binary = module_path(theory), "model-driver"
        d = vlib.workdir(f"{prop.lower()}-{theory}")
        hpath = os.path.join(d, "histories.ndjson")
        tpath = os.path.join(d, "trace.ndjson")
        rows = []
        for i, h in enumerate(hs):
            steps = h["steps"]
            if i % 3 == 2 and prop != "C06" and replay is None and theory not in plan.external:
                # every third history calls the public close() itself instead of close_until(never): no
                # observation inside the loop, but the function a caller uses is the one that runs
                # (not for C06: a close() that does not return could not be cut off; not for generated programs:
                # their chase need not terminate and only close_until can be given a budget)
                steps = [dict(st, raw=True) if st["op"] == "close" else st for st in steps]
            rows.append({"id": i + 1, "theory": theory, "fam": h["fam"], "steps": steps})
        vlib.write_ndjson(hpath, rows)
        try:
            r = vlib.run([os.path.join(vlib.BIN, binary), hpath, tpath], timeout=900,
                         env=({"MODEL_DRIVER_MAX_OBS": "12"} if theory in plan.external else None))
        except Exception as ex:
            if type(ex).__name__ != "TimeoutExpired":
                raise
            raise vlib.ToolError(f"{binary} did not finish the histories of {theory} within 15 min (a close() of the code under test "
                                 "that does not return cannot be cut off from outside: no verdict)")
        if r.returncode != 0:
            raise vlib.ToolError(f"{binary} failed on {theory}: {r.stderr[-2000:]}")
        res = mcgen.validate_api_trace(theory, sig, stages, mpath, tpath, f"{prop.lower()}-{theory}-mon",
                                       maxels=plan.maxels.get(theory, 9))
        vlib.log(f"[{prop}] {theory}: {len(rows)} histories, {res['events']} events, monitor {res['_wall']:.1f}s, "
                 f"closes {res['stats']['closes']} (inconclusive {res['stats']['inconclusive']})")
        states += res["_states"]
        transitions += res["_generated"]
        ntraces += len(rows)
        nevents += res["events"]
        stats_all[theory] = res["stats"]
        if rows:
            samples.append({"theory": theory, "steps": rows[len(rows) // 2]["steps"]})
        byid = {row["id"]: row for row in rows}
        mine = []
        for viol in res["viol"]:
            p = viol["prop"]
            if (p == "PANIC" and prop in panic_props) or p == prop or p in also_props:
                mine.append(viol)
        # known findings: static part of the classifier, then (where the finding defines one) the
        # counterfactual run - the rewritten history must be free of violations of this property
        pending = []      # (viol, kf) waiting for the counterfactual verdict
        verdicts = []     # (viol, kf or None)
        for viol in mine:
            hist = byid[viol["id"]]
            kf = next((k for k in kfs if static_match(prop, viol, hist, theory, sig, k)), None)
            if kf is not None and "counterfactual" in kf["classifier"]:
                pending.append((viol, kf))
            else:
                verdicts.append((viol, kf))
        if pending:
            cf_rows = []
            cf_of = {}
            for viol, kf in pending:
                key = (viol["id"], kf["id"])
                if key in cf_of:
                    continue
                cf_of[key] = len(cf_rows) + 1
                hist = byid[viol["id"]]
                fam_first = [h2 for h2 in rows if hist["fam"] >= 0 and h2["fam"] == hist["fam"] and h2["id"] < hist["id"]][:1]
                # a family violation is re-evaluated against the same first member
                base = len(cf_rows) + 1
                for h2 in fam_first:
                    cf_rows.append({"id": len(cf_rows) + 1, "theory": theory, "fam": base,
                                    "steps": counterfactual_history(kf["classifier"]["counterfactual"], sig, h2["steps"])})
                cf_of[key] = len(cf_rows) + 1
                cf_rows.append({"id": len(cf_rows) + 1, "theory": theory, "fam": base if fam_first else -1,
                                "steps": counterfactual_history(kf["classifier"]["counterfactual"], sig, hist["steps"])})
            d2 = vlib.workdir(f"{prop.lower()}-{theory}-cf")
            vlib.write_ndjson(os.path.join(d2, "histories.ndjson"), cf_rows)
            r2 = vlib.run([os.path.join(vlib.BIN, binary), os.path.join(d2, "histories.ndjson"), os.path.join(d2, "trace.ndjson")], timeout=1800)
            if r2.returncode != 0:
                raise vlib.ToolError(f"model-driver failed on {theory} (counterfactual): {r2.stderr[-2000:]}")
            res2 = mcgen.validate_api_trace(theory, sig, stages, mpath, os.path.join(d2, "trace.ndjson"),
                                            f"{prop.lower()}-{theory}-cfmon", maxels=plan.maxels.get(theory, 9))
            states += res2["_states"]
            transitions += res2["_generated"]
            bad_cf = {x["id"] for x in res2["viol"] if x["prop"] == prop or x["prop"] in also_props or (x["prop"] == "PANIC" and prop in panic_props)}
            for viol, kf in pending:
                verdicts.append((viol, kf if cf_of[(viol["id"], kf["id"])] not in bad_cf else None))
        reported = set()
        for viol, kf in verdicts:
            hist = byid[viol["id"]]
            if kf is not None:
                v.known_finding(kf, f"(e.g. theory {theory}: {viol['what']})")
                continue
            if viol["id"] in reported:
                continue
            reported.add(viol["id"])
            fam = [h2["steps"] for h2 in rows if hist["fam"] >= 0 and h2["fam"] == hist["fam"] and h2["id"] < hist["id"]][:1]
            v.violation(f"{theory}: {viol['what']} (trace line {viol['line']})",
                        {"theory": theory, "steps": hist["steps"], "fam": hist["fam"], "family": fam})
    extra_cov = None
    if extra is not None and replay is None:
        extra_cov = extra(v, tier, rnd)
        states += extra_cov.get("states", 0)
        transitions += extra_cov.get("transitions", 0)
        ntraces += extra_cov.get("replayed_sequences", 0) + extra_cov.get("random_sequences", 0)
    v.coverage = {
        "extra": extra_cov,
        "states": max(states, 1),
        "transitions": max(transitions, 1),
        "traces_validated_against_impl": ntraces,
        "samples": samples[:3] or [{"note": "no history"}],
        "trace_events": nevents,
        "monitor_stats": stats_all,
        "theories": sorted(plan.by_theory),
        "generator_states": plan.gen_states,
        "design_runs": design_info,
        "design_reproduction_of_known_findings": (json.load(open(os.path.join(vlib.WORK, "c17_design.json")))
                                                  if prop == "C17" and tier == "thorough" and os.path.exists(os.path.join(vlib.WORK, "c17_design.json")) else None),
        "notes": plan.notes,
        "exhaustive": False,
        "explanation": explanation,
    }
    v.assumptions = ["TLC, Json/IOUtils community modules", "reference stages computed by tools/eql.py (independent front end)",
                     "model-driver records faithfully; private index fields read by an impl included next to the generated module"]
    return v.finish()


def add_generated_programs(plan, rnd, nprogs, nhist, prop):
    """well-formed programs enumerated by TLC from Lang.tla, compiled by the compiler under test and
    driven with seeded random histories; their reference stages come from tools/eql.py"""
    import c10
    import histories
    gen = vlib.tlc("MCLang", name=f"{prop.lower()}-lang", workers=8, timeout=3000)
    plan.add_gen(gen)
    accepted = []
    for p in gen["prints"].get("PROG", []):
        if not p["errs"]:
            prog = p["prog"]
            accepted.append([prog[k] for k in sorted(prog, key=int)] if isinstance(prog, dict) else prog)
    # programs with at least one `then` statement are the interesting ones
    accepted = [a for a in accepted if any(st["k"] == "then" for st in a)]
    chosen = rnd.sample(accepted, min(nprogs * 2, len(accepted)))
    programs = {}
    for i, prog in enumerate(chosen[:nprogs]):
        name = "lp" + "".join(chr(ord("a") + (i // 26 ** k) % 26) for k in (2, 1, 0))
        programs[name] = c10.render(prog)
    # structured rules (branch / match) that the compiler accepts: the reference stages of tools/eql.py
    # follow the control-flow graph, the generated code comes from flatten.rs
    work = vlib.workdir(f"{prop.lower()}-sprog")
    k = 0
    for j, sp in enumerate(c10.structured_programs(rnd, nprogs * 12)):
        if k >= nprogs:
            break
        if not any(st.get("k") == "then" for it in sp for st in ([it] if it["k"] in ("if", "then") else
                                                                  [x for b in it.get("bs", []) for x in b] + [x for c in it.get("cs", []) for x in c["blk"]])):
            continue
        text, _ = c10.render_structured(sp)
        rc, _cls, _ln, _to = c10.run_cli(text, work, j)
        if rc == 0:
            programs["sp" + "".join(chr(ord("a") + (k // 26 ** q) % 26) for q in (2, 1, 0))] = text
            k += 1
    done, skipped = theories.prepare_generated(programs)
    for name, (sig, stages) in done.items():
        mpath = os.path.join(theories.GENP_OUT, name + ".eql.rs")
        plan.external[name] = (sig, stages, mpath, "gen-driver")
        api = histories.api_of(sig, mpath)
        for _ in range(nhist):
            plan.add(name, histories.random_history(sig, api, rnd, rnd.randint(3, 10), 2, enum_prob=0.15))
        plan.maxels[name] = 7
    plan.notes["generated_programs"] = {"compiled": len(done), "skipped": skipped,
                                        "sample": programs[next(iter(done))][len(c10.PRE):] if done else ""}
