"""C06 - with only surjective rules close() terminates and never adds elements.
Design: EqlogEval liveness (see c06 design run below) ; binding: on `!`-free corpus theories every
close runs under a bound on condition evaluations (driver) and ApiTrace requires that no element id
is allocated between close_begin and any obs/close_ret and that the number of classes does not grow."""
import histories
import modelcheck

PROP = "C06"
SIZE = {"poset": 3, "diag": 3}


def make_plan(ths, tier, rnd):
    plan = modelcheck.Plan()
    thorough = tier == "thorough"
    for theory, (sig, stages) in modelcheck.select(ths, PROP, tier):
        if any(st["concl"]["kind"] == "def" for st in stages):
            continue
        api = histories.api_of(sig, modelcheck.module_path(theory))
        n = SIZE.get(theory, 3)
        for _ in range(100 if thorough else 50):
            plan.add(theory, histories.random_history(sig, api, rnd, rnd.randint(4, 16), n, p_close=0.15, p_until=0.05, allow_define=True))
    return plan


def run(tier, replay):
    return modelcheck.run(PROP, tier, replay, make_plan, design=[("poset", {"maxels": 2, "maxid": 2, "maxasserts": 2, "liveness": True, "thorough_only": {"maxels": 3, "maxid": 3, "maxasserts": 3}})], panic_props=("C06",),
                          explanation="`!`-free corpus theories only; a close that exceeds the driver's bound of 150 condition "
                                      "evaluations is reported as budget event")
