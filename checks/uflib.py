"""Union-find part of C05: UnionFind.tla (the transcribed parent forest with path halving refines the
representative contract, every call sequence of the scope) generates the sequences that are replayed
on eqlog_runtime::Unification; UFTrace validates what the real type answered."""
import os

import gen_ops
import vlib


def execute_and_validate(v, cases, name):
    d = vlib.workdir(name)
    ops = os.path.join(d, "ops.ndjson")
    trace = os.path.join(d, "trace.ndjson")
    vlib.write_ndjson(ops, cases)
    r = vlib.run([os.path.join(vlib.BIN, "rt-driver"), "uf", ops, trace], timeout=1200)
    if r.returncode != 0:
        raise vlib.ToolError("rt-driver failed: " + r.stderr[-2000:])
    res = vlib.validate_trace("UFTrace", trace, name=name, timeout=3000)
    byid = {c["id"]: c for c in cases}
    seen = set()
    for viol in res["viol"]:
        if viol["id"] in seen:
            continue
        seen.add(viol["id"])
        v.violation(f"Unification: {viol['what']} (trace line {viol['line']})", {"kind": "uf", "case": byid[viol["id"]]})
    return res


def run(v, tier, rnd):
    thorough = tier == "thorough"
    vlib.cargo_build(["rt-driver"])
    mc = vlib.tlc("UnionFind", cfg="UnionFind_4" if thorough else "UnionFind_3", name="c05-uf", workers=4, timeout=3000, heap="8g")
    seqs = mc["prints"].get("REPLAY", [])
    cap = 15000 if thorough else 6000
    chosen = seqs if len(seqs) <= cap else rnd.sample(seqs, cap)
    cases = [{"id": i + 1, "ops": ops} for i, ops in enumerate(chosen)]
    res1 = execute_and_validate(v, cases, "c05-uf-exh")
    rc = gen_ops.uf_cases(vlib.seed(), 60 if thorough else 15, 80, 12, first_id=len(cases) + 1)
    res2 = execute_and_validate(v, rc, "c05-uf-rnd")
    return {"design_states": mc["distinct"], "enumerated_sequences": len(seqs), "replayed_sequences": len(cases),
            "random_sequences": len(rc), "trace_events": res1["events"] + res2["events"],
            "states": mc["distinct"] + res1["_states"] + res2["_states"],
            "transitions": mc["generated"] + res1["_generated"] + res2["_generated"]}


def replay(v, case):
    vlib.cargo_build(["rt-driver"])
    return execute_and_validate(v, [case], "c05-uf-replay")
