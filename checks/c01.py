"""C01 - close() reaches a fixed point: every rule holds in the closed model.
Decided by ApiTrace at every close_ret(false): the reference stages are evaluated naively on the
dumped model (Structure!Unsatisfied) and the model is compared with the reference chase (Complete)."""
import histories
import modelcheck

PROP = "C01"

QUICK = {"poset": 3, "semilattice": 2, "pend": 2, "diag": 2}


def make_plan(ths, tier, rnd):
    plan = modelcheck.Plan()
    thorough = tier == "thorough"
    for theory, (sig, stages) in modelcheck.select(ths, PROP, tier):
        api = histories.api_of(sig, modelcheck.module_path(theory))
        n = QUICK.get(theory, 2)
        # exhaustive small-scope histories from the ApiGen specification
        bodies, r = histories.exhaustive_bodies(theory, sig, api, n if n <= 2 else 2, 3,
                                                2, 1, 4, f"c01-gen-{theory}")
        plan.add_gen(r)
        cap = 400 if thorough else 250
        chosen = bodies if len(bodies) <= cap else rnd.sample(bodies, cap)
        for b in chosen:
            plan.add(theory, b)
        for _ in range(60 if thorough else 25):
            plan.add(theory, histories.random_history(sig, api, rnd, (8 if theory == 'joins' else 0) + rnd.randint(4, 14), n))
        plan.notes[theory] = {"enumerated_histories": len(bodies), "replayed_of_those": len(chosen)}
    if thorough:
        modelcheck.add_generated_programs(plan, rnd, 16, 8, PROP)
    return plan


def run(tier, replay):
    return modelcheck.run(PROP, tier, replay, make_plan, design=[("pend", {"maxels": 1, "maxid": 3, "maxasserts": 2}), ("poset", {"maxels": 2, "maxid": 2, "maxasserts": 2, "thorough_only": {"maxels": 3, "maxid": 3, "maxasserts": 3}})],
                          explanation="histories: every ApiGen history of the scope (2 pre-created elements per type, "
                                      "<=3 calls, <=2 assertions, close_until stopping at evaluation 0/1) plus seeded random "
                                      "histories; oracle: naive evaluation of the reference stages on the dumped closed model "
                                      "and comparison with the reference chase")
