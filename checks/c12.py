"""C12 - incremental builds are never stale, whatever edits and crashes came before.
Design: TLC checks Build.tla (every mutation of the protocol one action, crash before any of them,
rustc failure, worker pool) for Fresh / NoRewrite.  Binding: TLC enumerates edit / build / crash-at-k
/ rustc-failure histories of Build.tla; each is executed on the real CLI (hook verif_fs_point, stand-in
rustc); BuildTrace validates the recorded outcomes against the clean builds of each version."""
import json
import os
import random
import shutil
from concurrent.futures import ThreadPoolExecutor

import buildlib
import vlib

PROP = "C12"


def to_steps(hist):
    steps = []
    for rec in hist:
        kind = rec[0]
        if kind == "edit":
            steps.append({"op": "edit", "v": rec[1]})
        elif kind == "build":
            if not any(x["op"] == "edit" for x in steps):
                steps.insert(0, {"op": "edit", "v": rec[1]})   # the behaviour's initial source version
            steps.append({"op": "build"})
        elif kind == "crash":
            steps[-1]["crash_at"] = int(rec[1]) + 1
        elif kind == "rustc_fail":
            steps[-1]["rustc_fail"] = rec[1]
    return steps


def ref_json(ref):
    files = sorted(k for k in next(iter(ref.values())) if not k.startswith("_"))
    canon = {}
    for f in files:
        canon[f] = {}
        for v in sorted(ref):
            h = ref[v].get(f)
            if h is None:
                canon[f][v] = "none"
            else:
                canon[f][v] = sorted(w for w in ref if ref[w].get(f) == h)[0]
    return {"canon": canon}


def execute(mode, histories, name, v):
    work = vlib.workdir(name)
    ref = buildlib.clean_reference(work, mode)
    def one(item):
        hid, steps = item
        return buildlib.run_history(work, mode, ref, hid, steps)
    with ThreadPoolExecutor(12) as ex:
        evs = list(ex.map(one, list(enumerate(histories, 1))))
    trace = os.path.join(work, "trace.ndjson")
    vlib.write_ndjson(trace, [e for h in evs for e in h])
    refp = os.path.join(work, "ref.json")
    json.dump(ref_json(ref), open(refp, "w"))
    res = vlib.validate_trace("BuildTrace", trace, name=name + "-mon", env={"REF": refp})
    kfs = [k for k in vlib.known_findings() if k.get("kind") == "known" and PROP in k.get("properties", [])]
    seen = set()
    for viol in res["viol"]:
        kf = next((k for k in kfs if k["classifier"].get("what") == viol["what"] and k["classifier"].get("mode", mode) == mode), None)
        if kf:
            v.known_finding(kf, f"({mode} build)")
            continue
        if viol["id"] in seen:
            continue
        seen.add(viol["id"])
        v.violation(f"{mode} build: {viol['what']} (trace line {viol['line']})", {"mode": mode, "steps": histories[viol["id"] - 1]})
    return res


def select_histories(hs, cap, rnd):
    """Stratified choice: histories are grouped by their shape (operations, versions, which builds are
    killed / fail); the members of a group differ in the mutation before which a build is killed.  Groups
    that enumerate the kill points of a single build (<= 12 members) are taken completely - the property is
    about *every* crash point -, one member of every larger group, then a seeded random fill."""
    import collections
    uniq = []
    seen = set()
    for h in hs:
        k = json.dumps(h, sort_keys=True)
        if k not in seen:
            seen.add(k)
            uniq.append(h)
    if len(uniq) <= cap:
        return uniq
    groups = collections.OrderedDict()
    for h in uniq:
        key = tuple((s["op"], s.get("v"), "crash_at" in s, s.get("rustc_fail")) for s in h)
        groups.setdefault(key, []).append(h)
    chosen, rest = [], []
    for key, ms in groups.items():
        if len(ms) <= 12:
            chosen += ms
        else:
            i = rnd.randrange(len(ms))
            chosen.append(ms[i])
            rest += ms[:i] + ms[i + 1:]
    if len(chosen) > cap:
        chosen = rnd.sample(chosen, cap)
    elif rest:
        chosen += rnd.sample(rest, min(cap - len(chosen), len(rest)))
    return chosen


WITNESSES = {
    # F3: build v1; edit v2; build killed after rustc wrote the library of c1 and before its digest; edit v1; build
    "component": [[{"op": "edit", "v": "v1"}, {"op": "build"}, {"op": "edit", "v": "v2"}, {"op": "build", "rustc_kill": "c1"},
                   {"op": "edit", "v": "v1"}, {"op": "build"}],
                  [{"op": "edit", "v": "v3"}, {"op": "build"}, {"op": "edit", "v": "v1"}, {"op": "build"}],
                  [{"op": "edit", "v": "v1"}, {"op": "build"}, {"op": "build"}, {"op": "edit", "v": "v4"}, {"op": "build"}, {"op": "build"}]],
    "module": [[{"op": "edit", "v": "v1"}, {"op": "build"}, {"op": "build"}, {"op": "edit", "v": "v2"}, {"op": "build", "crash_at": 2},
                {"op": "build"}, {"op": "edit", "v": "v1"}, {"op": "build"}]],
}


def run(tier, replay):
    v = vlib.Verdict(PROP, tier, "model_checking")
    vlib.cargo_build(["eqlogc"])
    if replay is not None:
        rp = replay["replay"]
        res = execute(rp["mode"], [rp["steps"]], "c12-replay", v)
        v.coverage = {"states": res["_states"], "transitions": res["_generated"], "traces_validated_against_impl": 1, "samples": [rp]}
        return v.finish()
    thorough = tier == "thorough"
    rnd = random.Random(vlib.seed())
    design = vlib.tlc("MCBuild", "MCBuild_design", name="c12-design", workers=8)
    design_m = vlib.tlc("MCBuild", "MCBuild_module", name="c12-design-mod", workers=4)
    states = design["distinct"] + design_m["distinct"]
    trans = design["generated"] + design_m["generated"]
    total = 0
    events = 0
    stats = {}
    samples = []
    for mode, cfg in (("component", "MCBuild_gen"), ("module", "MCBuild_genmod")):
        gen = vlib.tlc("MCBuild", cfg, name="c12-gen-" + mode, workers=8, timeout=3000)
        states += gen["distinct"]
        trans += gen["generated"]
        hs = [to_steps(h) for h in gen["prints"].get("REPLAY", [])]
        # histories start with the source already present: prepend the initial version of the behaviour
        hs = [h for h in hs if any(s["op"] == "build" for s in h)]
        # the property speaks about builds that report success: a history ending in an edit, a killed
        # or a failed build is completed by the build the user runs next
        hs = [h if h[-1] == {"op": "build"} else h + [{"op": "build"}] for h in hs]
        hs = select_histories(hs, 12000 if thorough else 1500, rnd)
        hs = WITNESSES[mode] + hs
        res = execute(mode, hs, "c12-" + mode, v)
        states += res["_states"]
        trans += res["_generated"]
        total += len(hs)
        events += res["events"]
        stats[mode] = res["stats"]
        samples.append({"mode": mode, "steps": hs[len(hs) // 2]})
    v.coverage = {"states": states, "transitions": trans, "traces_validated_against_impl": total, "samples": samples,
                  "trace_events": events, "monitor_stats": stats, "design_states": design["distinct"],
                  "exhaustive": False,
                  "explanation": "design: Build.tla (4 versions, 2 components, 2 workers, crash before every mutation, rustc failure) "
                                 "checked for Fresh/NoRewrite/Deterministic; binding: histories of <=3 steps enumerated by TLC "
                                 "(sampled in the quick tier) + pinned witnesses, executed on the real CLI, validated by BuildTrace"}
    v.assumptions = ["stand-in rustc: library = function of the component source", "hook verif_fs_point marks every mutation"]
    return v.finish()
