"""C16 - semi-naive plans enumerate exactly the matches containing a new tuple, once.
Artefact validation: the plan of every rule family is extracted from the code the compiler under
test emits (comment block and, independently, the new/old index fields each premise position binds
in the function body); TLC evaluates SemiNaive!ExactlyOnce and SameShape over every family and all
2^n labellings.  Because the check is on the emitted plan, any other correct scheme passes.
Thorough tier also re-proves the TLAPS lemma for the ideal plan (arbitrary n)."""
import json
import os
import re
import shutil

import extract
import theories
import vlib

PROP = "C16"


def compile_dir(src_dir, name):
    """module-mode compilation of every .eql file of src_dir with the compiler under test"""
    out = os.path.join(vlib.WORK, name)
    os.makedirs(out, exist_ok=True)
    r = vlib.run([os.path.join(vlib.BIN, "eqlogc"), src_dir, out], timeout=900)
    return out, r


def repo_theories_dir():
    """the repository's own test theories (flat copy; *.eql only)"""
    d = os.path.join(vlib.WORK, "repo_theories")
    shutil.rmtree(d, ignore_errors=True)
    os.makedirs(d)
    src = "/repo/eqlog-test-eval/src"
    for f in sorted(os.listdir(src)):
        if f.endswith(".eql"):
            shutil.copyfile(os.path.join(src, f), os.path.join(d, f))
    return d


def collect_programs():
    theories.prepare(build=False)
    progs = []
    for n in theories.all_names():
        progs.append((n, os.path.join(theories.GEN_OUT, n + ".eql.rs")))
    out, r = compile_dir(repo_theories_dir(), "repo_theories_out")
    if r.returncode != 0:
        raise vlib.ToolError("the compiler under test rejects the repository's own test theories: " + r.stderr[-1500:])
    for f in sorted(os.listdir(out)):
        if f.endswith(".eql.rs"):
            progs.append(("repo:" + f[:-7], os.path.join(out, f)))
    return progs


def run(tier, replay):
    v = vlib.Verdict(PROP, tier, "model_checking")
    vlib.cargo_build(["eqlogc"])
    progs = collect_programs()
    fams = []
    for name, path in progs:
        fams += extract.families(open(path).read(), name)
    d = vlib.workdir("c16")
    plan = os.path.join(d, "plan.json")
    json.dump(fams, open(plan, "w"))
    r = vlib.tlc("SemiNaive", name="c16-tlc", workers=4, env={"PLAN": plan}, allow_violation=True, timeout=1800)
    if not r["ok"]:
        # identify the family from the counterexample
        m = re.search(r"fam = (\d+)", r["out"])
        lab = re.search(r"lab = (.*)", r["out"])
        if not m:
            raise vlib.ToolError("SemiNaive failed without a counterexample:\n" + r["out"][-2000:])
        f = fams[int(m.group(1)) - 1]
        v.violation(f"{','.join(r['violated'])} fails for family {f['name']} of program {f['program']} under labelling {lab.group(1) if lab else '?'}",
                    {"family": f, "labelling": lab.group(1) if lab else None})
    cov = {
        "states": max(r["distinct"], 1), "transitions": max(r["generated"], 1),
        "traces_validated_against_impl": len(progs),
        "samples": [fams[len(fams) // 2]] if fams else [{"note": "none"}],
        "programs": len(progs), "families": len(fams), "labellings": sum(2 ** f["natoms"] for f in fams),
        "max_atoms": max(f["natoms"] for f in fams),
        "exhaustive": True,
        "explanation": "artefacts: module-mode output of the corpus theories and of the repository's eqlog-test-eval theories; "
                       "one TLC state per (family, labelling); traces_validated_against_impl counts the generated modules whose plans were extracted",
    }
    if tier == "thorough":
        pd = vlib.workdir("c16-tlaps")
        shutil.copyfile(os.path.join(vlib.SPEC, "proofs", "SemiNaiveLemma.tla"), os.path.join(pd, "SemiNaiveLemma.tla"))
        # auxiliary: the unbounded lemma for the *ideal* plan.  Back-end timeouts on a loaded machine do not
        # affect the verdict (which is TLC's, on the extracted plan); they are recorded.
        pr = vlib.run(["timeout", "1500", "tlapm", "--threads", "8", "--stretch", "5", "SemiNaiveLemma.tla"], cwd=pd, timeout=1600)
        txt = pr.stdout + pr.stderr
        m = re.search(r"All (\d+) obligations? proved", txt)
        f = re.search(r"(\d+)/(\d+) obligations failed", txt)
        cov["tlaps"] = {"module": "spec/proofs/SemiNaiveLemma.tla",
                        "obligations": int(m.group(1)) if m else (int(f.group(2)) if f else 0),
                        "proved": int(m.group(1)) if m else (int(f.group(2)) - int(f.group(1)) if f else 0),
                        "all_proved": bool(m)}
    v.coverage = cov
    v.assumptions = ["tools/extract.py parses the emitted text faithfully (a parse failure is a tool error)", "TLC"]
    return v.finish()
