"""C15 - elements of enum types always destructure into a constructor case.
Artefact part: the generated API of every enum theory offers no new_<enum>() without a case and no
define_ for a non-constructor function into an enum type (checked on the module text).  Behavioural
part: ApiTrace!EnumBad after every close and every new_<enum>: <enum>_case(el) returns (a panic is a
violation) a constructor tuple of el, <enum>_cases(el) is exactly the set of constructor tuples."""
import re
import eql
import histories
import modelcheck
import vlib

PROP = "C15"


def make_plan(ths, tier, rnd):
    plan = modelcheck.Plan()
    thorough = tier == "thorough"
    for theory, (sig, stages) in modelcheck.select(ths, PROP, tier):
        if not sig.enums:
            continue
        api = histories.api_of(sig, modelcheck.module_path(theory))
        # artefact check: the only ways to obtain an enum element are constructors
        bad = []
        for t in sig.enums:
            text = open(modelcheck.module_path(theory)).read()
            if re.search(r"pub fn new_%s\(&mut self,?\s*\)" % eql.snake(t), text):
                bad.append(f"new_{eql.snake(t)}() without a case")
        for f in api["define"]:
            if sig.rels[f]["cols"][-1] in sig.enums and sig.rels[f]["ctor"] is None:
                bad.append(f"define_{eql.snake(f)} creates an element of enum {sig.rels[f]['cols'][-1]}")
        plan.notes[theory] = {"api_violations": bad}
        for _ in range(100 if thorough else 60):
            plan.add(theory, histories.random_history(sig, api, rnd, rnd.randint(3, 12), 2, enum_prob=0.3))
    return plan


def run(tier, replay):
    rc = modelcheck.run(PROP, tier, replay, make_plan, panic_props=("C15",),
                        explanation="enum theories of the corpus; random histories mixing new_<enum>(case), constructor "
                                    "insert_/define_, equalities between enum elements and closes")
    return rc
