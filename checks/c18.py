"""C18 - morphism ordering is a topological order and cycles are reported.

TLC enumerates every graph of the scope (Toposort.tla; dom/cod each optional per morphism), checks
the transcribed algorithm against ValidOutput (design), and emits the graphs; each graph is given to
the real morphism_toposort under several new/old splits of the three tables; TLC validates every
recorded <input, output> with ValidOutput and requires all splits of a graph to agree (TopoTrace)."""
import json
import os
import random
import vlib

PROP = "C18"
LEVEL = "model_checking"


def splits(rnd, nent, k):
    out = [[0] * nent, [1] * nent, [i % 2 for i in range(nent)], [(i + 1) % 2 for i in range(nent)]]
    for _ in range(k):
        out.append([rnd.randint(0, 1) for _ in range(nent)])
    uniq = []
    for s in out:
        if s not in uniq:
            uniq.append(s)
    return uniq


def cases_from_graphs(graphs, nrand, rnd):
    cases = []
    for gi, g in enumerate(graphs):
        nobj = g["nobj"]
        dom = [(m + 1, o) for m, o in enumerate(g["dom"]) if o >= 0]
        cod = [(m + 1, o) for m, o in enumerate(g["cod"]) if o >= 0]
        nent = nobj + len(dom) + len(cod)
        for s in splits(rnd, nent, nrand):
            objs = [[o, s[o]] for o in range(nobj)]
            d = [[m, o, s[nobj + i]] for i, (m, o) in enumerate(dom)]
            c = [[m, o, s[nobj + len(dom) + i]] for i, (m, o) in enumerate(cod)]
            cases.append({"id": len(cases) + 1, "g": gi, "objs": objs, "dom": d, "cod": c})
    return cases


def execute_and_validate(v, cases, name):
    d = vlib.workdir(name)
    ops = os.path.join(d, "ops.ndjson")
    trace = os.path.join(d, "trace.ndjson")
    vlib.write_ndjson(ops, cases)
    r = vlib.run([os.path.join(vlib.BIN, "rt-driver"), "topo", ops, trace], timeout=1200)
    if r.returncode != 0:
        raise vlib.ToolError("rt-driver failed: " + r.stderr[-2000:])
    res = vlib.validate_trace("TopoTrace", trace, name=name)
    byid = {c["id"]: c for c in cases}
    seen = set()
    for viol in res["viol"]:
        g = byid[viol["id"]]["g"]
        if g in seen:
            continue
        seen.add(g)
        v.violation(f"{viol['what']} (trace line {viol['line']})",
                    {"kind": "topo", "cases": [c for c in cases if c["g"] == g]})
    return res


def run(tier, replay):
    v = vlib.Verdict(PROP, tier, LEVEL)
    vlib.cargo_build(["rt-driver"])
    if replay is not None:
        cs = replay["replay"]["cases"]
        res = execute_and_validate(v, cs, "c18-replay")
        v.coverage = {"states": res["_states"], "transitions": res["_generated"], "traces_validated_against_impl": len(cs), "samples": cs[:1]}
        return v.finish()
    thorough = tier == "thorough"
    rnd = random.Random(vlib.seed())
    graphs = []
    dist = gen = 0
    for cfg in (["Toposort_3_2", "Toposort_3_3", "Toposort_3_4"] if thorough else ["Toposort_3_2", "Toposort_3_3"]):
        mc = vlib.tlc("Toposort", name="c18-" + cfg, workers=4, cfg=cfg, timeout=3000)
        dist += mc["distinct"]
        gen += mc["generated"]
        seen = set()
        for g in mc["prints"].get("GRAPH", []):
            key = json.dumps(g, sort_keys=True)
            if key not in seen:
                seen.add(key)
                graphs.append(g)
    cases = cases_from_graphs(graphs, 3 if thorough else 1, rnd)
    res = execute_and_validate(v, cases, "c18-exh")
    v.coverage = {
        "states": dist + res["_states"],
        "transitions": gen + res["_generated"],
        "traces_validated_against_impl": len(cases),
        "samples": [cases[len(cases) // 3], cases[-1]],
        "graphs": len(graphs),
        "order_drift_events": res["drift"],
        "exhaustive": True,
        "explanation": "all graphs with 3 objects and <=3 (thorough: <=4) morphisms with optional dom/cod, each under "
                       "the all-old, all-new, two alternating and seeded random new/old splits; the transcribed "
                       "algorithm is checked against ValidOutput on every graph (design) and every real output is "
                       "validated by TopoTrace; order_drift_events counts outputs whose order differs from the "
                       "transcription (diagnostic only)",
    }
    v.assumptions = ["TLC, Json/IOUtils community modules", "functional dom/cod tables whose objects are in the object table (closed models)"]
    return v.finish()
