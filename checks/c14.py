"""C14 - the ordered map stays balanced, exact and persistent.

1. TLC model-checks the transcribed tree algorithms (WBTreeAlg: every pair of trees reachable by
   insert/remove/union/difference over N keys keeps the size/order/weight-balance invariant and the
   height bound, and refines the set contract) and the contract itself (MCOrdMap: laws, clone
   independence), and MCOrdMap emits every operation sequence of the small scope.
2. Those sequences plus seeded long random ones are executed on the real WBTreeMap (rt-driver wbt),
   recording every result, every live handle's contents, len, callback invocations and the physical
   tree shape (hook verif_shape_json).
3. TLC validates the recorded trace against OrdMapTrace (contract + balance invariant evaluated on
   the observed shape at every step)."""
import os
import vlib
import gen_ops

PROP = "C14"
LEVEL = "model_checking"


def execute_and_validate(v, cases, name):
    d = vlib.workdir(name)
    ops = os.path.join(d, "ops.ndjson")
    trace = os.path.join(d, "trace.ndjson")
    vlib.write_ndjson(ops, cases)
    r = vlib.run([os.path.join(vlib.BIN, "rt-driver"), "wbt", ops, trace], timeout=1200)
    if r.returncode != 0:
        raise vlib.ToolError("rt-driver failed: " + r.stderr[-2000:])
    res = vlib.validate_trace("OrdMapTrace", trace, name=name)
    byid = {c["id"]: c for c in cases}
    seen = set()
    for viol in res["viol"]:
        if viol["id"] in seen:
            continue
        seen.add(viol["id"])
        v.violation(f"{viol['what']} (trace line {viol['line']})", {"kind": "wbt", "case": byid[viol["id"]]})
    return res


def shape_directed_cases(maxn, first_id):
    """Boundary cases of the rebalancing code, found by shape rather than by chance: every insertion
    order of n <= maxn keys is executed on the real map (not validated, only observed); for every distinct
    physical tree shape that occurs, one insertion order reaching it is continued by every single removal
    and by every single insertion into a gap - those sequences are validated by OrdMapTrace like all
    others.  (A removal on the light side of a node is the only way to reach some rotation cases.)"""
    import itertools
    import json
    d = vlib.workdir("c14-shapes")
    probes = []
    for n in range(3, maxn + 1):
        keys = [2 * i for i in range(1, n + 1)]
        for perm in itertools.permutations(keys):
            probes.append({"id": len(probes) + 1, "nh": 1,
                           "ops": [{"op": "insert", "h": 1, "h2": 0, "h3": 0, "k": k, "v": i + 1} for i, k in enumerate(perm)]})
    ops = os.path.join(d, "ops.ndjson")
    trace = os.path.join(d, "trace.ndjson")
    vlib.write_ndjson(ops, probes)
    r = vlib.run([os.path.join(vlib.BIN, "rt-driver"), "wbt", ops, trace], timeout=1200)
    if r.returncode != 0:
        raise vlib.ToolError("rt-driver failed: " + r.stderr[-2000:])
    last = {}
    with open(trace) as f:
        for line in f:
            e = json.loads(line)
            if e.get("ev") == "op" or "st" in e:
                last[e["id"]] = e
    reps = {}
    for p in probes:
        e = last.get(p["id"])
        if e is None or "st" not in e:
            continue
        key = json.dumps(e["st"][0]["shape"], sort_keys=True)
        reps.setdefault(key, p)
    cases = []
    for key, p in sorted(reps.items()):
        n = len(p["ops"])
        present = [o["k"] for o in p["ops"]]
        for k in sorted(present):
            cases.append({"id": first_id + len(cases), "nh": 1,
                          "ops": p["ops"] + [{"op": "remove", "h": 1, "h2": 0, "h3": 0, "k": k, "v": 0}]})
        for k in range(1, 2 * n + 2, 2):
            cases.append({"id": first_id + len(cases), "nh": 1,
                          "ops": p["ops"] + [{"op": "insert", "h": 1, "h2": 0, "h3": 0, "k": k, "v": 99}]})
    return cases, len(probes), len(reps)


def run(tier, replay):
    v = vlib.Verdict(PROP, tier, LEVEL)
    vlib.cargo_build(["rt-driver"])
    if replay is not None:
        res = execute_and_validate(v, [replay["replay"]["case"]], "c14-replay")
        v.coverage = {"states": res["_states"], "transitions": res["_generated"], "traces_validated_against_impl": 1,
                      "samples": [replay["replay"]["case"]]}
        return v.finish()
    thorough = tier == "thorough"
    # 1. design level
    n = 7 if thorough else 6
    alg = vlib.tlc("WBTreeAlg", name="c14-alg", workers=8, timeout=3000,
                   extra=None, env=None, cfg="WBTreeAlg7" if thorough else "WBTreeAlg6")
    mc = vlib.tlc("MCOrdMap", name="c14-gen", workers=4, cfg="MCOrdMap3" if thorough else "MCOrdMap")
    seqs = mc["prints"].get("REPLAY", [])
    cases = [{"id": i + 1, "nh": 2, "ops": ops} for i, ops in enumerate(seqs)]
    # 2.+3. replay + trace validation
    res1 = execute_and_validate(v, cases, "c14-exh")
    rnd = gen_ops.wbt_cases(vlib.seed(), 120 if thorough else 30, 400 if thorough else 200, 64 if thorough else 40, 3,
                            first_id=len(cases) + 1)
    res2 = execute_and_validate(v, rnd, "c14-rnd")
    directed, nprobes, nshapes = shape_directed_cases(8 if thorough else 7, len(cases) + len(rnd) + 1)
    res3 = execute_and_validate(v, directed, "c14-shapes-val")
    res2 = {k: (res2[k] + res3[k] if k in ("_states", "_generated", "events", "drift") else res2[k]) for k in res2}
    rnd = rnd + directed
    v.coverage = {
        "states": alg["distinct"] + mc["distinct"] + res1["_states"] + res2["_states"],
        "transitions": alg["generated"] + mc["generated"] + res1["_generated"] + res2["_generated"],
        "traces_validated_against_impl": len(cases) + len(rnd),
        "samples": [cases[len(cases) // 2], {"id": rnd[0]["id"], "nh": 3, "ops": rnd[0]["ops"][:12], "note": "first 12 ops"}],
        "design_states": {"WBTreeAlg": alg["distinct"], "N": n, "MCOrdMap": mc["distinct"]},
        "exhaustive_sequences": len(cases),
        "shape_directed": {"insertion_orders_probed": nprobes, "distinct_shapes": nshapes, "sequences": len(directed)},
        "random_sequences": len(rnd),
        "trace_events": res1["events"] + res2["events"],
        "shape_drift_events": res1["drift"] + res2["drift"],
        "exhaustive": False,
        "explanation": "design: WBTreeAlg (all pairs of trees over N keys) + OrdMap contract; binding: every "
                       "operation sequence of the MCOrdMap scope and seeded random sequences executed on WBTreeMap, "
                       "traces validated by OrdMapTrace; shape_drift_events counts steps where the observed tree "
                       "shape differs from the transcribed algorithm (diagnostic only)",
    }
    v.assumptions = ["TLC, Json/IOUtils community modules", "rt-driver records faithfully",
                     "verif_shape_json hook reports the physical tree"]
    return v.finish()
