"""C10 - static checks accept exactly the well-formed programs and name the right error.
The reference static semantics is Lang.tla (Errors(prog): variables/wildcards introduced in `then`,
`:=` variable not new, surjectivity modulo congruence of the rule's terms, variables used once,
conflicting / undetermined types, non-constructor terms made defined in an enum type).  TLC
enumerates every two-statement rule over the statement pool together with its verdict (MCLang);
a stratified sample (thorough: a large part) is rendered and given to the real CLI, and LangTrace
recomputes Errors(prog) and compares accept/reject, error class and line.  Symbol-level defects
(undeclared, twice declared, wrong kind, wrong argument count) are planted one at a time into
well-formed programs with the expected class and line; the corpus and the repository's theories
are the positive side."""
import collections
import os
import random
import re
import shutil
import subprocess
from concurrent.futures import ThreadPoolExecutor

import c16
import theories
import vlib

PROP = "C10"
PRE = ("type A;\ntype B;\npred p(A);\npred q(A, B);\npred z();\nfunc f(A) -> A;\nfunc g(A, B) -> B;\nfunc c() -> A;\n"
       "enum E {\n  Nil(),\n  Cons(A)\n}\nfunc h(A) -> E;\n")
NPRE = PRE.count("\n")
MSG = [("variable introduced in then statement", "VarIntroducedInThen"), ("wildcards must not appear", "WildcardInThen"),
       ("variable has already been introduced earlier", "ThenDefinedVarNotNew"), ("term does not appear earlier", "Surjectivity"),
       ("occurs only once", "UsedOnce"), ("term has conflicting types", "ConflictingType"), ("type of term undetermined", "UndeterminedType"),
       ("is not introduced with constructor", "EnumNotCtor"), ("undeclared symbol", "Undeclared"),
       ("symbol declared multiple times", "DeclaredTwice"), ("expected ", "BadKind"), (" arguments but ", "ArgCount"),
       ("expected a variable", "ThenDefinedNotVar"), ("Missing match case", "MatchNotExhaustive"),
       ("Pattern is a variable", "MatchPatternVar"), ("Pattern is a wildcard", "MatchPatternWild"),
       ("Nested patterns", "MatchNested"), ("Variable in pattern has been used before", "MatchVarNotFresh"),
       ("Conflicting pattern types", "MatchConflictingEnum")]


def term(t):
    if t["op"] == "var":
        return t["n"]
    if t["op"] == "wild":
        return "_"
    return t["f"] + "(" + ", ".join(term(a) for a in t["args"]) + ")"


def atom(a):
    if a["t"] == "pred":
        return a["p"] + "(" + ", ".join(term(x) for x in a["args"]) + ")"
    if a["t"] == "eq":
        return term(a["l"]) + " = " + term(a["r"])
    if a["t"] == "def":
        if a["v"]["op"] == "none":
            return term(a["tm"]) + "!"
        return term(a["v"]) + " := " + term(a["tm"]) + "!"
    return term(a["v"]) + ": " + a["ty"]


def render(prog):
    return PRE + "rule r {\n" + "".join(f"  {s['k']} {atom(s['a'])};\n" for s in prog) + "}\n"


def classify(stderr):
    lines = stderr.split("\n")
    cls = "Other:" + lines[0][:60]
    for k, v in MSG:
        if k in lines[0]:
            cls = v
            break
    m = [re.search(r"--> .*:(\d+)$", l) for l in lines]
    m = [x for x in m if x]
    return cls, (int(m[0].group(1)) if m else 0)


def run_cli(text, work, i):
    d = os.path.join(work, f"r{i % 64}_{i}")
    os.makedirs(os.path.join(d, "in"), exist_ok=True)
    with open(os.path.join(d, "in", "t.eql"), "w") as f:
        f.write(text)
    try:
        r = subprocess.run([os.path.join(vlib.BIN, "eqlogc"), os.path.join(d, "in"), os.path.join(d, "out")],
                           capture_output=True, text=True, timeout=120)
        rc, err, to = r.returncode, r.stderr, False
    except subprocess.TimeoutExpired:
        rc, err, to = -1, "", True
    shutil.rmtree(d, ignore_errors=True)
    cls, ln = classify(err) if rc == 1 else ("", 0)
    return rc, cls, ln, to


def symbol_mutants(rnd):
    """(label, text, planted kind, expected classes, expected line)"""
    base_rules = ["rule a {\n  if q(x, y);\n  if q(x, y);\n  then z();\n}\n", "rule b {\n  if p(x);\n  if y = f(x);\n  then p(y);\n}\n"]
    base = PRE + "".join(base_rules)
    nb = base.count("\n")
    out = []

    def add(label, text, kind, classes, line):
        # a second declaration is reported at either declaration site (an enum constructor: at its enum)
        lines = [line, 9] if label == "twice-ctor" else [line]
        out.append((label, text, kind, classes, lines))
    # inside a fresh rule appended at the end: the defect is on line nb + 2
    for label, stmt, kind, classes in [
        ("undeclared-pred", "if uu(x);", "undeclared symbol", ["Undeclared"]),
        ("undeclared-func", "if x = ff(x);", "undeclared symbol", ["Undeclared"]),
        ("undeclared-then", "then uu(x);", "undeclared symbol", ["Undeclared"]),
        ("argcount-pred", "if p(x, x);", "argument count", ["ArgCount"]),
        ("argcount-pred0", "if z(x);", "argument count", ["ArgCount"]),
        ("argcount-func", "if x = f(x, x);", "argument count", ["ArgCount"]),
        ("argcount-func0", "if x = c(x);", "argument count", ["ArgCount"]),
        ("badkind-type-as-pred", "if A(x);", "symbol kind", ["BadKind"]),
        ("badkind-pred-as-func", "if x = p(x);", "symbol kind", ["BadKind"]),
        ("badkind-func-as-pred", "if f(x);", "symbol kind", ["BadKind", "ArgCount"]),
    ]:
        add(label, base + "rule m {\n  if p(x);\n  " + stmt + "\n  then z();\n}\n", kind, classes, nb + 3)
    for label, decl, kind, classes in [
        ("undeclared-type-pred-arg", "pred pp(Zz);", "undeclared symbol", ["Undeclared"]),
        ("undeclared-type-func-arg", "func gg(Zz) -> A;", "undeclared symbol", ["Undeclared"]),
        ("undeclared-type-func-res", "func gg(A) -> Zz;", "undeclared symbol", ["Undeclared"]),
        ("twice-type", "type A;", "second declaration", ["DeclaredTwice"]),
        ("twice-pred", "pred p(A);", "second declaration", ["DeclaredTwice"]),
        ("twice-func-pred", "func p(A) -> A;", "second declaration", ["DeclaredTwice"]),
        ("twice-ctor", "func Nil() -> A;", "second declaration", ["DeclaredTwice"]),
        ("badkind-pred-as-type", "pred pp(p);", "symbol kind", ["BadKind"]),
    ]:
        add(label, base + decl + "\n", kind, classes, nb + 1)
    # match statements: a well-formed base and one defect at a time
    mdecl = "enum F {\n  Lf(),\n  Nd(A)\n}\npred seen(E);\n"
    mb = base + mdecl
    nm = mb.count("\n")

    def mrule(cases):
        return "rule mm {\n  if e: E;\n  match e {\n" + "".join(f"    {pat} => {{\n{body}    }}\n" for pat, body in cases) + "  }\n}\n"
    ok_cases = [("Nil()", "      then seen(e);\n"), ("Cons(w)", "      then p(w);\n")]
    out.append(("match-ok", mb + mrule(ok_cases), "none", [], []))
    # line numbers: nm+1 rule, nm+2 if, nm+3 match, first case at nm+4 (3 lines per case)
    add("match-missing-case", mb + mrule(ok_cases[:1]), "non-exhaustive match", ["MatchNotExhaustive"], nm + 3)
    add("match-pattern-variable", mb + mrule(ok_cases + [("v", "      then seen(e);\n")]), "malformed pattern", ["MatchPatternVar"], nm + 10)
    add("match-pattern-wildcard", mb + mrule(ok_cases + [("_", "      then seen(e);\n")]), "malformed pattern", ["MatchPatternWild"], nm + 10)
    add("match-nested-pattern", mb + mrule([ok_cases[0], ("Cons(f(w))", "      then p(w);\n")]), "malformed pattern", ["MatchNested"], nm + 7)
    notfresh = "rule mm {\n  if e: E;\n  if p(u);\n  match e {\n    Nil() => {\n      then seen(e);\n    }\n    Cons(u) => {\n      then p(u);\n    }\n  }\n}\n"
    add("match-var-not-fresh", mb + notfresh, "malformed pattern", ["MatchVarNotFresh"], nm + 8)
    out.append(("match-conflicting-enum", mb + mrule(ok_cases + [("Lf()", "      then seen(e);\n")]), "malformed pattern",
                ["MatchConflictingEnum", "ConflictingType"], [nm + 3, nm + 10]))
    return out


def stmt_pool():
    """the statement pool of Lang.tla (Stmts), for programs longer than TLC enumerates; the reference
    verdict of such a program is computed by LangTrace (Lang!Errors is defined for any length)"""
    def V(n):
        return {"op": "var", "n": n}

    def Ap(f, *args):
        return {"op": "app", "f": f, "args": list(args)}
    W = {"op": "wild", "id": []}
    none = {"op": "none"}
    x, y = V("x"), V("y")
    TP = [x, y, W, Ap("c"), Ap("f", x), Ap("f", y), Ap("f", Ap("f", x)), Ap("g", x, y), Ap("h", x), Ap("Cons", x), Ap("Nil")]
    QA = [x, y, W, Ap("f", x)]
    EQT = [x, y, Ap("f", x), Ap("f", y), Ap("c"), Ap("g", x, y), Ap("h", x), Ap("Cons", x)]
    DT = [t for t in TP if t["op"] == "app"]
    preds = [{"t": "pred", "p": "p", "args": [a]} for a in TP] + [{"t": "pred", "p": "q", "args": [a, b]} for a in QA for b in QA] \
        + [{"t": "pred", "p": "z", "args": []}]
    eqs = [{"t": "eq", "l": a, "r": b} for a in EQT for b in EQT]
    ifs = preds + eqs + [{"t": "def", "v": none, "tm": a} for a in DT] + [{"t": "vt", "v": v, "ty": ty} for v in (x, y) for ty in ("A", "B", "E")]
    thens = preds + eqs + [{"t": "def", "v": v, "tm": a} for v in (none, x, y) for a in DT]
    return [{"k": "if", "a": a} for a in ifs], [{"k": "then", "a": a} for a in thens]


SIG_P = {"p": ["A"], "q": ["A", "B"], "z": []}
SIG_F = {"f": (["A"], "A"), "g": (["A", "B"], "B"), "c": ([], "A"), "h": (["A"], "E"), "Nil": ([], "E"), "Cons": (["A"], "E")}


def well_typed(stmt, assign):
    """does the statement respect the variable typing `assign` (var name -> type)?  (generator bias only:
    the verdict always comes from Lang.tla)"""
    ok = [True]

    def ty(t, want):
        if t["op"] == "var":
            if want is not None and assign.get(t["n"]) != want:
                ok[0] = False
            return assign.get(t["n"])
        if t["op"] == "wild":
            return want
        dom, cod = SIG_F[t["f"]]
        if want is not None and cod != want:
            ok[0] = False
        for a, d in zip(t["args"], dom):
            ty(a, d)
        return cod
    a = stmt["a"]
    if a["t"] == "pred":
        for x, d in zip(a["args"], SIG_P[a["p"]]):
            ty(x, d)
    elif a["t"] == "eq":
        lt = ty(a["l"], None)
        rt = ty(a["r"], None)
        if lt != rt:
            ok[0] = False
    elif a["t"] == "def":
        tt = ty(a["tm"], None)
        if a["v"]["op"] == "var" and assign.get(a["v"]["n"]) != tt:
            ok[0] = False
    else:
        if assign.get(a["v"]["n"]) != a["ty"]:
            ok[0] = False
    return ok[0]


def pools(rnd):
    """the statement pool, with probability 0.6 restricted to statements that are well typed for one
    random typing of x and y (otherwise almost every random rule dies of a type conflict)"""
    ifs, thens = stmt_pool()
    if rnd.random() < 0.6:
        assign = {"x": rnd.choice(["A", "A", "E"]), "y": rnd.choice(["A", "B", "B"])}
        ifs = [s for s in ifs if well_typed(s, assign)]
        thens = [s for s in thens if well_typed(s, assign)]
    return ifs, thens


def long_programs(rnd, n, lengths=(3, 4)):
    """seeded random rules of 3-4 statements, biased towards well-formed ones: statements are drawn
    from the pool, `if` statements first with probability 0.7 per position"""
    out = []
    for _ in range(n):
        ifs, thens = pools(rnd)
        ln = rnd.choice(lengths)
        prog = []
        for i in range(ln):
            p_if = 0.85 if i == 0 else (0.6 if i < ln - 1 else 0.2)
            prog.append(rnd.choice(ifs) if rnd.random() < p_if else rnd.choice(thens))
        out.append(prog)
    return out


def render_structured(prog):
    """text of a structured rule and the map rule-relative line -> <<item, block, index>>"""
    lines = ["rule r {"]
    keys = {}
    for i, it in enumerate(prog, 1):
        if it["k"] == "match":
            lines.append(f"  match {term(it['tm'])} {{")
            keys[len(lines)] = [i, 0, 0]
            for b, cs in enumerate(it["cs"], 1):
                lines.append(f"    {term(cs['pat'])} => {{")
                keys[len(lines)] = [i, b, 0]
                for j, st in enumerate(cs["blk"], 1):
                    lines.append(f"      {st['k']} {atom(st['a'])};")
                    keys[len(lines)] = [i, b, j]
                lines.append("    }")
            lines.append("  }")
        elif it["k"] == "branch":
            for b, blk in enumerate(it["bs"], 1):
                lines.append("  branch {" if b == 1 else "  } along {")
                keys[len(lines)] = [i, 0, 0]
                for j, st in enumerate(blk, 1):
                    lines.append(f"    {st['k']} {atom(st['a'])};")
                    keys[len(lines)] = [i, b, j]
            lines.append("  }")
        else:
            lines.append(f"  {it['k']} {atom(it['a'])};")
            keys[len(lines)] = [i, 0, 0]
    lines.append("}")
    return PRE + "\n".join(lines) + "\n", keys


def structured_programs(rnd, n):
    """seeded random rules with one branch statement (1-2 blocks of 1-2 statements), 0-2 statements
    before and 0-1 after it; the reference verdict is Lang!ErrorsS, computed by LangTrace"""
    out = []
    for _ in range(n):
        ifs, thens = pools(rnd)
        pre = [rnd.choice(ifs) for _ in range(rnd.choice([0, 1, 1, 2]))]
        blocks = []
        for _b in range(rnd.choice([1, 2, 2])):
            k = rnd.choice([1, 2])
            blocks.append([(rnd.choice(ifs) if (j == 0 and rnd.random() < 0.7) or rnd.random() < 0.35 else rnd.choice(thens)) for j in range(k)])
        post = [rnd.choice(ifs) if rnd.random() < 0.4 else rnd.choice(thens) for _ in range(rnd.choice([0, 1, 1]))]
        if rnd.random() < 0.35:
            # a match on an E-valued term instead of the branch
            V = lambda n: {"op": "var", "n": n}
            Ap = lambda f, *a: {"op": "app", "f": f, "args": list(a)}
            tm = rnd.choice([V("x"), V("y"), Ap("h", V("x")), Ap("h", V("y")), Ap("h", Ap("f", V("x")))])
            w = V("w")
            extra_if = [{"k": "if", "a": {"t": "pred", "p": "p", "args": [w]}}, {"k": "if", "a": {"t": "eq", "l": w, "r": Ap("f", w)}}]
            extra_then = [{"k": "then", "a": {"t": "pred", "p": "p", "args": [w]}}, {"k": "then", "a": {"t": "pred", "p": "q", "args": [w, V("y")]}}]
            conspat = rnd.choice([Ap("Cons", {"op": "wild", "id": []}), Ap("Cons", w), Ap("Cons", w), Ap("Cons", V("x"))])
            cases = [{"pat": Ap("Nil"), "blk": [rnd.choice(ifs + thens) for _ in range(rnd.choice([0, 1, 1]))]},
                     {"pat": conspat, "blk": [rnd.choice(ifs + thens + 8 * (extra_if + extra_then)) for _ in range(rnd.choice([1, 1, 2]))]}]
            if rnd.random() < 0.1:
                cases.pop(rnd.randrange(2))
            elif rnd.random() < 0.3:
                cases.reverse()
            out.append(pre + [{"k": "match", "tm": tm, "cs": cases}] + post)
        else:
            out.append(pre + [{"k": "branch", "bs": blocks}] + post)
    return out


def run(tier, replay):
    v = vlib.Verdict(PROP, tier, "exploration")
    vlib.cargo_build(["eqlogc"])
    thorough = tier == "thorough"
    rnd = random.Random(vlib.seed())
    work = vlib.workdir("c10")
    events = []
    items = []   # (event skeleton, text)
    gen = None
    if replay is not None:
        rp = replay["replay"]
        if rp["ev"] == "prog":
            items.append(({"ev": "prog", "prog": rp["prog"]}, render(rp["prog"])))
        elif rp["ev"] == "sprog":
            text, keys = render_structured(rp["prog"])
            items.append(({"ev": "sprog", "prog": rp["prog"], "_keys": keys}, text))
        else:
            items.append((dict(rp["event"]), rp["text"]))
    else:
        gen = vlib.tlc("MCLang", name="c10-gen", workers=8, timeout=3000)
        progs = [p for p in gen["prints"].get("PROG", [])]
        by_class = collections.defaultdict(list)
        for p in progs:
            prog = p["prog"]
            prog = [prog[k] for k in sorted(prog, key=int)] if isinstance(prog, dict) else prog
            errs = p["errs"]
            key = "accepted" if not errs else "+".join(sorted({e[0] for e in errs}))
            by_class[key].append(prog)
        per = 400 if thorough else 25
        chosen = []
        for key, ps in sorted(by_class.items()):
            chosen += (ps if len(ps) <= per else rnd.sample(ps, per))
        extra = 6000 if thorough else 300
        flat = [p for ps in by_class.values() for p in ps]
        chosen += rnd.sample(flat, min(extra, len(flat)))
        # pinned witness of KF-C10-1
        vx = {"op": "var", "n": "x"}
        chosen.append([{"k": "then", "a": {"t": "def", "v": vx, "tm": {"op": "app", "f": "f", "args": [vx]}}},
                       {"k": "then", "a": {"t": "eq", "l": vx, "r": vx}}])
        chosen += long_programs(rnd, 3000 if thorough else 150)
        for prog in chosen:
            items.append(({"ev": "prog", "prog": prog}, render(prog)))
        for sp in structured_programs(rnd, 3000 if thorough else 200):
            text, keys = render_structured(sp)
            items.append(({"ev": "sprog", "prog": sp, "_keys": keys}, text))
        muts = symbol_mutants(rnd)
        # the same programs below a comment banner of multi-byte characters: class and (shifted) line must not change
        banner = "// " + "\u2500" * 30 + " caf\u00e9\n"
        muts += [(label + "+banner", banner + text, kind, classes, [x + 1 for x in line]) for label, text, kind, classes, line in muts]
        for label, text, kind, classes, line in muts:
            if kind == "none":
                items.append(({"ev": "valid", "label": label}, text))
            else:
                items.append(({"ev": "mutant", "label": label, "planted": kind, "expected": classes, "lines_expected": line}, text))
        for f in sorted(os.listdir(theories.THEORIES)):
            if f.endswith(".eql"):
                items.append(({"ev": "valid", "label": "corpus/" + f}, open(os.path.join(theories.THEORIES, f)).read()))
        rd = c16.repo_theories_dir()
        for f in sorted(os.listdir(rd)):
            items.append(({"ev": "valid", "label": "repo/" + f}, open(os.path.join(rd, f)).read()))

    def one(x):
        i, (skel, text) = x
        rc, cls, ln, to = run_cli(text, work, i)
        e = {k: x for k, x in skel.items() if not k.startswith("_")}
        e.update({"id": i, "rc": rc, "cls": cls, "timeout": to,
                  "ln": (ln - NPRE - 1) if skel["ev"] == "prog" and ln else ln})
        if skel["ev"] == "sprog":
            e["key"] = skel["_keys"].get(ln - NPRE, [0, 0, 0]) if ln else [0, 0, 0]
        return e
    with ThreadPoolExecutor(16) as ex:
        events = list(ex.map(one, list(enumerate(items, 1))))
    trace = os.path.join(work, "trace.ndjson")
    vlib.write_ndjson(trace, events)
    res = vlib.validate_trace("LangTrace", trace, name="c10-mon", timeout=3000)
    kfs = [k for k in vlib.known_findings() if k.get("kind") == "known" and PROP in k.get("properties", [])]
    seen = set()
    for viol in res["viol"]:
        kf = next((k for k in kfs if k["classifier"].get("what") == viol["what"]), None)
        if kf:
            v.known_finding(kf)
            continue
        if viol["id"] in seen:
            continue
        seen.add(viol["id"])
        skel, text = items[viol["id"] - 1]
        v.violation(f"{viol['what']}: {text[len(PRE):][:200] if skel['ev'] in ('prog', 'sprog') else skel.get('label')}",
                    {"ev": skel["ev"], "prog": skel.get("prog"), "event": {k: x for k, x in skel.items() if k != "prog" and not k.startswith("_")}, "text": text})
    nprog = sum(1 for s, _ in items if s["ev"] in ("prog", "sprog"))
    v.coverage = {"evaluations": len(items), "distinct_nontrivial": len({t for _, t in items}),
                  "rule": "one evaluation = one CLI run; programs: two-statement rules over the Lang.tla statement pool (stratified by the "
                          "set of error classes the reference assigns, plus a uniform sample), symbol-level single-defect mutants, and the "
                          "corpus / repository theories as well-formed programs; distinct = distinct source texts (every one has a rule)",
                  "samples": [{"text": items[0][1][len(PRE):]}], "monitor_stats": res["stats"],
                  "enumerated_by_tlc": (gen["distinct"] if gen else 0), "programs_from_lang": nprog,
                  "explanation": "verdicts compared by LangTrace (TLC), which recomputes Lang!Errors for every program"}
    v.assumptions = ["Lang.tla is the reference static semantics for the fragment it covers (flat rules over a fixed signature)",
                     "error classes are recognised by the first line of the message"]
    return v.finish()
