"""C13 - compilation is deterministic.
Design: Build.tla's Deterministic invariant (what a successful build leaves is independent of the
worker schedule).  Binding: every program group (the corpus, the repository's test theories) is
compiled repeatedly - module and component mode, 1/2/16 worker threads, different input/output
directories and path depths, seeded completion orders of the stand-in rustc, fresh processes - and
DetTrace requires all runs of a group to produce byte-identical files (relative name -> digest)."""
import hashlib
import os
import random
import shutil
import subprocess

import c16
import theories
import vlib

PROP = "C13"
FAKE_RUSTC = os.path.join(vlib.VERIF, "tools", "fake_rustc.sh")


def file_map(*roots):
    out = {}
    for tag, root in roots:
        for d, _, fns in os.walk(root):
            for fn in fns:
                p = os.path.join(d, fn)
                with open(p, "rb") as f:
                    out[tag + "/" + os.path.relpath(p, root)] = hashlib.sha256(f.read()).hexdigest()
    return out


def only_theory(fm, name):
    """the files of one theory in a file map (out/<name>.eql.rs, out/<name>.digest, comp/<name>.eql/...)"""
    return {k: h for k, h in fm.items() if k.split("/", 1)[1].startswith(name + ".")}


def one_run(src_files, base, mode, threads, delays, label, rerun_without=None):
    shutil.rmtree(base, ignore_errors=True)
    ind, outd, compd = os.path.join(base, "in"), os.path.join(base, "out"), os.path.join(base, "comp")
    os.makedirs(ind)
    for name, text in src_files.items():
        with open(os.path.join(ind, name), "w") as f:
            f.write(text)
    env = dict(os.environ)
    env["RAYON_NUM_THREADS"] = str(threads)
    cmd = [os.path.join(vlib.BIN, "eqlogc"), ind, outd]
    if mode == "component":
        cmd += ["--build-type", "component", "--component-out-dir", compd, "--rustc-path", FAKE_RUSTC, "--runtime-rlib-path", "/nonexistent.rlib"]
        if delays:
            df = os.path.join(base, "delays.txt")
            with open(df, "w") as f:
                for pat, secs in delays:
                    f.write(f"{pat} {secs}\n")
            env["FAKE_RUSTC_DELAY_FILE"] = df
    r = subprocess.run(cmd, capture_output=True, text=True, env=env, timeout=900)
    if r.returncode != 0:
        raise vlib.ToolError(f"run {label} failed rc={r.returncode}: {r.stderr[-800:]}")
    if rerun_without:
        # incremental rebuild in the same directories: the outputs of one theory are removed, all others
        # are up to date (skipped through their digests); the result must be the same files again
        for root in (outd, compd):
            if os.path.isdir(root):
                for fn in os.listdir(root):
                    if fn.startswith(rerun_without + "."):
                        pth = os.path.join(root, fn)
                        shutil.rmtree(pth) if os.path.isdir(pth) else os.remove(pth)
        r = subprocess.run(cmd, capture_output=True, text=True, env=env, timeout=900)
        if r.returncode != 0:
            raise vlib.ToolError(f"rerun {label} failed rc={r.returncode}: {r.stderr[-800:]}")
    fm = file_map(("out", outd), ("comp", compd)) if mode == "component" else file_map(("out", outd))
    shutil.rmtree(base, ignore_errors=True)
    return fm


def run(tier, replay):
    v = vlib.Verdict(PROP, tier, "exploration")
    vlib.cargo_build(["eqlogc"])
    thorough = tier == "thorough"
    rnd = random.Random(vlib.seed())
    design = vlib.tlc("MCBuild", "MCBuild_design", name="c13-design", workers=8)
    groups = {}
    tdir = theories.THEORIES
    groups["corpus"] = {f: open(os.path.join(tdir, f)).read() for f in sorted(os.listdir(tdir)) if f.endswith(".eql")}
    rdir = c16.repo_theories_dir()
    groups["repo"] = {f: open(os.path.join(rdir, f)).read() for f in sorted(os.listdir(rdir)) if f.endswith(".eql")}
    work = vlib.workdir("c13")
    rows = []
    nruns = 0
    for g, files in groups.items():
        rules = [f[:-4] for f in files]
        for mode in ("component", "module"):
            plans = [(1, None, "a"), (2, "perm", "b/deeper/path"), (16, "perm", "c/x/y/z/w"), (1, None, "a")]
            if thorough:
                plans += [(4, "perm", "d"), (16, "perm", "e/e"), (3, "perm", "f")]
            for i, (threads, d, sub) in enumerate(plans):
                delays = None
                if d and mode == "component":
                    names = rnd.sample(rules, min(len(rules), 6))
                    delays = [(n[:6], round(rnd.random() * 0.15, 3)) for n in names]
                label = f"{g}/{mode}/run{i}(threads={threads},dir={sub})"
                fm = one_run(files, os.path.join(work, sub, f"{g}_{mode}_{i}"), mode, threads, delays, label)
                rows.append({"group": f"{g}/{mode}", "label": label, "out": fm})
                nruns += 1
                if i == 0:
                    full = fm
            names = sorted(files)
            picked = names if thorough else rnd.sample(names, min(5, len(names)))
            # incremental rebuild (same group as the full runs above: DetTrace compares consecutive rows of a group)
            for k, fname in enumerate(picked[:(3 if thorough else 1)]):
                th = fname[:-4]
                label = f"{g}/{mode}/rebuilt-after-removing-outputs-of:{th}"
                fm = one_run(files, os.path.join(work, "incr", f"{g}_{mode}_{k}"), mode, 2, None, label, rerun_without=th)
                rows.append({"group": f"{g}/{mode}", "label": label, "out": fm})
                nruns += 1
            # the output for a theory must not depend on which other theories the same process compiled
            # before it, nor on which of them were skipped as up to date
            for k, fname in enumerate(picked):
                th = fname[:-4]
                alone = one_run({fname: files[fname]}, os.path.join(work, "solo", f"{g}_{mode}_{k}"), mode, 2, None, f"{g}/{mode}/alone:{th}")
                rows.append({"group": f"{g}/{mode}/theory:{th}", "label": f"{g}/{mode}/with-siblings:{th}", "out": only_theory(full, th)})
                rows.append({"group": f"{g}/{mode}/theory:{th}", "label": f"{g}/{mode}/alone:{th}", "out": only_theory(alone, th)})
                nruns += 1
    trace = os.path.join(work, "trace.ndjson")
    vlib.write_ndjson(trace, rows)
    res = vlib.validate_trace("DetTrace", trace, name="c13-mon", cfg="DetTrace_C13")
    for viol in res["viol"]:
        v.violation(f"{viol['id']}: {viol['what']}", {"group": viol["id"], "what": viol["what"]})
    nfiles = sum(len(r["out"]) for r in rows)
    v.coverage = {"evaluations": nruns, "distinct_nontrivial": len({r["label"] for r in rows}),
                  "rule": "one evaluation = one full compilation of a program group (corpus: %d theories, repo: %d theories) in a "
                          "fresh process under its own thread count / directory layout / completion order; distinct = distinct "
                          "configuration labels; every run compiles programs with rules" % (len(groups["corpus"]), len(groups["repo"])),
                  "samples": [{"label": rows[1]["label"], "files": len(rows[1]["out"])}],
                  "files_compared": nfiles, "design_states": design["distinct"],
                  "explanation": "design-level: Build.tla Deterministic with 2 workers; runs validated by DetTrace (TLC)"}
    v.assumptions = ["stand-in rustc (library = f(source)); the real rustc's determinism is not part of the property"]
    return v.finish()
