"""C05 - API mutations take effect immediately; equality is exactly what was equated.
Decided by ApiTrace at every new/insert/define/equate event: the dumped state after the call is
compared with the contract applied to the dumped state before it (fresh dense ids, the inserted
tuple visible exactly once through iterator and point query, define returns the existing value or a
fresh element, partition = closure of the previous partition and the equate call, nothing else
changes), and root_/are_equal_ are checked for idempotence and mutual agreement at every event.
The union-find underneath (eqlog_runtime::Unification) is specified on its own (UnionFindOps.tla,
UnionFind.tla: the transcribed parent forest with path halving refines the representative contract);
every call sequence of that scope is replayed on the real type and validated by UFTrace (uflib)."""
import histories
import modelcheck
import uflib
import vlib

PROP = "C05"
SIZE = {"poset": 3, "semilattice": 3, "pend": 2, "diag": 3}


def make_plan(ths, tier, rnd):
    plan = modelcheck.Plan()
    thorough = tier == "thorough"
    for theory, (sig, stages) in modelcheck.select(ths, PROP, tier):
        api = histories.api_of(sig, modelcheck.module_path(theory))
        n = SIZE.get(theory, 2)
        for _ in range(60 if thorough else 30):
            plan.add(theory, histories.random_history(sig, api, rnd, rnd.randint(6, 18), n, p_close=0.08, p_until=0.04))
        plan.maxels[theory] = 7
    return plan


def run(tier, replay):
    if replay is not None and replay["replay"].get("kind") == "uf":
        v = vlib.Verdict(PROP, tier, "model_checking")
        res = uflib.replay(v, replay["replay"]["case"])
        v.coverage = {"states": res["_states"], "transitions": res["_generated"], "traces_validated_against_impl": 1,
                      "samples": [replay["replay"]["case"]]}
        return v.finish()
    return modelcheck.run(PROP, tier, replay, make_plan, extra=uflib.run,
                          explanation="seeded random interleavings of new_/insert_/define_/equate_ with closes; every mutator "
                                      "event carries a full query burst (iterators, point queries over all ids, are_equal on all pairs); "
                                      "extra: every Unification call sequence of UnionFind.tla's scope (3 elements, 5 calls; thorough 4/5) "
                                      "and seeded random sequences on 12 elements replayed on the real type, validated by UFTrace")
