"""C03 - incremental closing equals closing from scratch.
Families of histories asserting one fact set (one-shot; permuted; interleaved closes; duplicated
assertions; re-close) are executed; ApiTrace validates every member against the reference chase and
requires every member's final model to be isomorphic (fixing caller-created elements) to the first
member's, and a re-close to change nothing."""
import histories
import modelcheck

PROP = "C03"
SIZE = {"poset": 3, "semilattice": 2, "pend": 2, "diag": 2}


def make_plan(ths, tier, rnd):
    plan = modelcheck.Plan()
    thorough = tier == "thorough"
    fam = 0
    for theory, (sig, stages) in modelcheck.select(ths, PROP, tier):
        api = histories.api_of(sig, modelcheck.module_path(theory))
        n = SIZE.get(theory, 2)
        for _ in range(24 if thorough else 12):
            fam += 1
            for steps in histories.family_c03(sig, api, rnd, n, rnd.randint(2, 5), 6 if thorough else 4):
                plan.add(theory, steps, fam)
    return plan


def run(tier, replay):
    # design level: the close loop of EqlogEval running the flat rules EXTRACTED from the generated
    # module (ages as emitted) must refine the reference chase on every history of the scope - i.e.
    # the emitted semi-naive plans compute what naive evaluation computes
    design = [("poset", {"plan": True, "maxels": 3, "maxid": 3, "maxasserts": 2, "thorough_only": {"maxasserts": 3}}),
              ("pend", {"plan": True, "maxels": 1, "maxid": 3, "maxasserts": 2, "thorough_only": {"maxels": 2, "maxid": 4}}),
              ("diag", {"plan": True, "maxels": 2, "maxid": 2, "maxasserts": 2})]
    if tier == "thorough":
        design += [("misc", {"plan": True, "maxels": 1, "maxid": 2, "maxasserts": 2}),
                   ("trans_refl", {"plan": True, "maxels": 3, "maxid": 3, "maxasserts": 2})]
    return modelcheck.run(PROP, tier, replay, make_plan, design=design,
                          explanation="design: EqlogEval with the extracted plan refines the chase (TLC, all histories of the scope; "
                                      "counterexamples are replayed on the generated code); families: one fact set, k reorderings with interleaved close() calls and redundant "
                                      "re-assertions, plus a second close() of the closed model")
