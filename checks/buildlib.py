"""Driver for the build-protocol checks (C12, C13): executes edit / build / crash / rustc-failure
histories on the real eqlog CLI (built with the verif_fs_point hook) in a scratch directory, with a
stand-in rustc, and records for every step the mutation log and the abstract content of every
output file (which version's clean build has identical bytes)."""
import hashlib
import os
import shutil
import subprocess

import vlib

DECLS = "type A;\npred e(A, A);\npred q(A, A);\npred m(A);\npred s(A);\n"
ONE = "rule one {\n    if e(x, y);\n    then q(y, x);\n}\n"
ONE_REV = "rule one {\n    if q(x, y);\n    then e(y, x);\n}\n"
# (its name, one_b, has the name of rule one as a proper prefix: file names of the two components differ only in a suffix)
# rule one_b looks e up by its second column: adding it changes the column order of e's index and thereby the
# environment and the loop nest of the *unchanged* rule one (its flat rule stays the same, its library does not)
TWO = "rule one_b {\n    if m(z);\n    if e(_, z);\n    then s(z);\n}\n"
VERSIONS = {
    "v1": DECLS + ONE,
    "v2": DECLS + ONE_REV,
    "v3": DECLS + ONE + TWO,
    "v4": DECLS + ONE + "// a comment that changes the source digest only\n",
}
THEORY = "bt"
COMPS = {"c1": "eql_2_bt_one", "c2": "eql_2_bt_one_b"}
FAKE_RUSTC = os.path.join(vlib.VERIF, "tools", "fake_rustc.sh")


def sha(path):
    with open(path, "rb") as f:
        return hashlib.sha256(f.read()).hexdigest()


class Scratch:
    def __init__(self, root, mode):
        self.root = root
        self.mode = mode
        self.src = os.path.join(root, "in")
        self.out = os.path.join(root, "out")
        self.comp = os.path.join(root, "comp")
        shutil.rmtree(root, ignore_errors=True)
        os.makedirs(self.src)

    def edit(self, v):
        with open(os.path.join(self.src, THEORY + ".eql"), "w") as f:
            f.write(VERSIONS[v])

    def files(self):
        """logical file name -> path"""
        fs = {"mod": os.path.join(self.out, THEORY + ".eql.rs")}
        if self.mode == "component":
            cdir = os.path.join(self.comp, THEORY + ".eql")
            fs["tdig"] = os.path.join(cdir, THEORY + ".digest")
            for c, sym in COMPS.items():
                fs[f"csrc:{c}"] = os.path.join(cdir, sym + ".rs")
                fs[f"crlib:{c}"] = os.path.join(cdir, "lib" + sym + ".rlib")
                fs[f"cdig:{c}"] = os.path.join(cdir, sym + ".digest")
        return fs

    def other_files(self):
        known = set(self.files().values())
        out = []
        for base in (self.out, self.comp):
            for d, _, fns in os.walk(base):
                for fn in fns:
                    p = os.path.join(d, fn)
                    if p not in known:
                        out.append(os.path.relpath(p, self.root))
        return sorted(out)

    def snapshot(self):
        snap = {}
        for name, p in self.files().items():
            if os.path.exists(p):
                st = os.stat(p)
                snap[name] = (sha(p), st.st_mtime_ns, st.st_ino)
            else:
                snap[name] = None
        return snap

    def build(self, crash_at=0, rustc_fail="", threads=1, rustc_kill="", delay_file=None, extra_env=None):
        trace = os.path.join(self.root, "fs_trace.txt")
        if os.path.exists(trace):
            os.remove(trace)
        env = dict(os.environ)
        env["EQLOG_VERIF_FS_TRACE"] = trace
        env["RAYON_NUM_THREADS"] = str(threads)
        if crash_at:
            env["EQLOG_VERIF_CRASH_AT"] = str(crash_at)
        if rustc_fail:
            env["FAKE_RUSTC_FAIL"] = COMPS[rustc_fail]
        if rustc_kill:
            env["FAKE_RUSTC_KILL"] = COMPS[rustc_kill]
        if delay_file:
            env["FAKE_RUSTC_DELAY_FILE"] = delay_file
        if extra_env:
            env.update(extra_env)
        cmd = [os.path.join(vlib.BIN, "eqlogc"), self.src, self.out]
        if self.mode == "component":
            cmd += ["--build-type", "component", "--component-out-dir", self.comp, "--rustc-path", FAKE_RUSTC,
                    "--runtime-rlib-path", "/nonexistent.rlib"]
        r = subprocess.run(cmd, capture_output=True, text=True, env=env, timeout=120)
        muts = []
        if os.path.exists(trace):
            muts = [l.strip() for l in open(trace) if l.strip()]
        return r.returncode, muts, r.stderr


def clean_reference(workroot, mode):
    """content of every file after a build of each version into an empty directory"""
    ref = {}
    for v in VERSIONS:
        s = Scratch(os.path.join(workroot, f"clean_{mode}_{v}"), mode)
        s.edit(v)
        rc, muts, err = s.build()
        if rc != 0:
            raise vlib.ToolError(f"clean build of {v} ({mode}) failed rc={rc}: {err[-800:]}")
        ref[v] = {k: (x[0] if x else None) for k, x in s.snapshot().items()}
        ref[v]["_others"] = s.other_files()
        shutil.rmtree(s.root, ignore_errors=True)
    return ref


def abstract(snap, ref):
    """file -> "none" | "garbage" | canonical version id (smallest version whose clean build has these bytes)"""
    out = {}
    for name, x in snap.items():
        if x is None:
            out[name] = "none"
            continue
        vs = sorted(v for v in ref if ref[v].get(name) == x[0])
        out[name] = vs[0] if vs else "garbage"
    return out


def constants_from_reference(ref, mode):
    """the content-id constants of Build.tla as measured on the real compiler"""
    canon = {}
    for name in next(iter(ref.values())):
        if name.startswith("_"):
            continue
        for v in sorted(ref):
            h = ref[v].get(name)
            vs = sorted(w for w in ref if ref[w].get(name) == h and h is not None)
            canon[(name, v)] = vs[0] if vs else "none"
    return canon


def run_history(workroot, mode, ref, hid, steps):
    """steps: [{"op":"edit","v":..} | {"op":"build","crash_at":k,"rustc_fail":c,"rustc_kill":c}]; returns trace events"""
    s = Scratch(os.path.join(workroot, f"h_{mode}_{hid}"), mode)
    events = [{"ev": "reset", "id": hid, "mode": mode}]
    cur = None
    for st in steps:
        if st["op"] == "edit":
            s.edit(st["v"])
            cur = st["v"]
            events.append({"ev": "edit", "id": hid, "v": cur})
        else:
            before = s.snapshot()
            rc, muts, err = s.build(crash_at=st.get("crash_at", 0), rustc_fail=st.get("rustc_fail", ""),
                                    rustc_kill=st.get("rustc_kill", ""), threads=st.get("threads", 1))
            after = s.snapshot()
            rewritten = sorted(k for k in after if after[k] is not None and before[k] is not None and
                               (after[k][1] != before[k][1] or after[k][2] != before[k][2]))
            a = abstract(after, ref)
            fsrec = dict(a)
            if mode == "module":
                # the theory digest is the last line of the module: a module with the right bytes carries it
                fsrec["tdig"] = a["mod"]
            events.append({"ev": "build", "id": hid, "v": cur, "crash_at": st.get("crash_at", 0),
                           "rustc_fail": st.get("rustc_fail", ""), "rustc_kill": st.get("rustc_kill", ""),
                           "rc": rc, "muts": muts, "fs": fsrec, "rewritten": rewritten, "others": s.other_files(),
                           "stderr": err[-300:]})
    shutil.rmtree(s.root, ignore_errors=True)
    return events
