"""C19 - component build and module build implement the same model.
Structural part (translation validation on the emitted text, decided by TLC on Link.tla): env
structs identical at every declaration site, imported link names = exported symbols, rule code and
the rest of the module identical in both builds.  Behavioural part: the same API histories are run
against a driver built from the module-mode text and against one built by a process_root()
component build with the real rustc; the recorded traces must be byte-identical (and are validated
by ApiTrace in the C01-C07 checks)."""
import hashlib
import json
import os
import re
import shutil

import extract
import theories
import vlib
import c16

PROP = "C19"


def sha(t):
    return hashlib.sha256(t.encode()).hexdigest()


def split_module(text):
    """returns ({rule: inline module text}, rest of the text with the rule modules removed)"""
    mods = {}
    rest = []
    pos = 0
    for m in re.finditer(r"^mod (\w+) \{\n", text, re.M):
        if m.start() < pos:
            continue
        depth = 1
        i = m.end()
        while depth > 0:
            c = text[i]
            if c == "{":
                depth += 1
            elif c == "}":
                depth -= 1
            i += 1
        mods[m.group(1)] = text[m.end():i - 1]
        rest.append(text[pos:m.start()])
        pos = i
    rest.append(text[pos:])
    return mods, "".join(rest)


def strip_digest(text):
    return re.sub(r"\n?// DIGEST: [0-9A-F]+\s*$", "", text)


def norm(t):
    return "\n".join(l.strip() for l in t.strip().splitlines() if l.strip())


def program_record(name, mod_text, comp_text, comp_sources):
    theory = name.split(":")[-1]
    prefix = f"eql_{len(theory)}_{theory}_"
    mod_text = strip_digest(mod_text)
    inline, rest_m = split_module(mod_text)
    structs = {}
    for src in [rest_m] + list(inline.values()) + [comp_text] + list(comp_sources.values()):
        for sname, decls in extract.env_structs(src).items():
            structs.setdefault(sname, []).extend(decls)
    li_m = extract.link_info(mod_text)
    li_c = extract.link_info(comp_text)
    imports = [f"{ln}:{env}" for ln, (fn, env) in zip(li_c["link_names"], li_c["extern_fns"])]
    exports = []
    for fname, src in sorted(comp_sources.items()):
        for m in re.finditer(r"#\[unsafe\(no_mangle\)\]\s*\npub fn (\w+)\(mut env: (\w+)\)", src):
            exports.append(f"{m.group(1)}:{m.group(2)}")
    inline_syms = [f"{m.group(1)}:{m.group(2)}" for m in re.finditer(r"#\[unsafe\(no_mangle\)\]\s*\npub fn (\w+)\(mut env: (\w+)\)", mod_text)]
    ruletext = []
    for rule, body in sorted(inline.items()):
        comp = [s for f, s in comp_sources.items() if f == prefix + rule + ".rs"]
        ruletext.append({"rule": rule, "module": sha(norm(body)), "component": sha(norm(comp[0])) if len(comp) == 1 else "missing"})
    for f in comp_sources:
        if not any(f == prefix + r + ".rs" for r in inline):
            ruletext.append({"rule": f, "module": "missing", "component": sha(norm(comp_sources[f]))})
    return {"program": name, "structs": [{"name": k, "decls": v} for k, v in sorted(structs.items())],
            "imports": imports, "exports": exports, "inline": inline_syms, "ruletext": ruletext,
            "rest_module": sha(norm(rest_m)), "rest_component": sha(norm(comp_text))}


def build_component(src_dir, name):
    out = os.path.join(vlib.WORK, name + "_out")
    comp = os.path.join(vlib.WORK, name + "_comp")
    shutil.rmtree(out, ignore_errors=True)
    shutil.rmtree(comp, ignore_errors=True)
    r = vlib.run([os.path.join(vlib.BIN, "eqlogc"), src_dir, out, "--build-type", "component", "--component-out-dir", comp,
                  "--rustc-path", os.path.join(vlib.VERIF, "tools", "fake_rustc.sh"), "--runtime-rlib-path", "/nonexistent.rlib"], timeout=900)
    if r.returncode != 0:
        raise vlib.ToolError(f"component-mode build failed (rc={r.returncode}): {r.stderr[-1500:]}")
    return out, comp


def behavioural(v, tier):
    import hashlib
    import random
    import histories
    import modelcheck
    ths = theories.prepare()
    theories.prepare_component_driver()
    rnd = random.Random(vlib.seed())
    work = vlib.workdir("c19-beh")
    hs = []
    for theory, (sig, stages) in sorted(ths.items()):
        api = histories.api_of(sig, modelcheck.module_path(theory))
        for _ in range(60 if tier == "thorough" else 10):
            hs.append({"id": len(hs) + 1, "theory": theory, "fam": -1,
                       "steps": histories.random_history(sig, api, rnd, rnd.randint(5, 16), 2 if theory == "semilattice" else 3)})
    hpath = os.path.join(work, "histories.ndjson")
    vlib.write_ndjson(hpath, hs)
    rows = []
    for label, binary in (("module-build", "model-driver"), ("component-build", "comp-driver")):
        tpath = os.path.join(work, f"trace_{label}.ndjson")
        r = vlib.run([os.path.join(vlib.BIN, binary), hpath, tpath], timeout=1800)
        if r.returncode != 0:
            raise vlib.ToolError(f"{binary} failed: {r.stderr[-800:]}")
        out = {}
        for i, line in enumerate(open(tpath)):
            out[f"line{i+1}"] = hashlib.sha1(re.sub(r'"ms":\d+,', "", line).encode()).hexdigest()[:16]
        rows.append({"group": "corpus-histories", "label": label, "out": out})
    trace = os.path.join(work, "trace.ndjson")
    vlib.write_ndjson(trace, rows)
    res = vlib.validate_trace("DetTrace", trace, name="c19-beh-mon", cfg="DetTrace_C19")
    for viol in res["viol"]:
        v.violation("module build and component build behave differently: " + viol["what"], {"histories": hpath})
    return {"histories": len(hs), "transcript_lines": len(rows[0]["out"]), "differing_runs": len(res["viol"])}


def run(tier, replay):
    v = vlib.Verdict(PROP, tier, "translation_validation")
    vlib.cargo_build(["eqlogc"])
    theories.prepare(build=False)
    records = []
    sets = [("corpus", theories.GEN_IN, theories.GEN_OUT), ]
    repo_dir = c16.repo_theories_dir()
    repo_out, r = c16.compile_dir(repo_dir, "repo_theories_out")
    if r.returncode != 0:
        raise vlib.ToolError("module-mode build of the repository theories failed: " + r.stderr[-1500:])
    sets.append(("repo", repo_dir, repo_out))
    for label, src_dir, mod_out in sets:
        cout, ccomp = build_component(src_dir, "c19_" + label)
        for f in sorted(os.listdir(src_dir)):
            if not f.endswith(".eql"):
                continue
            n = f[:-4]
            mod_text = open(os.path.join(mod_out, n + ".eql.rs")).read()
            comp_text = open(os.path.join(cout, n + ".eql.rs")).read()
            cdir = os.path.join(ccomp, f)
            srcs = {g: open(os.path.join(cdir, g)).read() for g in sorted(os.listdir(cdir)) if g.endswith(".rs")} if os.path.isdir(cdir) else {}
            records.append(program_record(f"{label}:{n}", mod_text, comp_text, srcs))
    # incremental component builds: the libraries left by a sequence of edits and rebuilds in one output
    # directory must still match the module of the final version at every library boundary
    import buildlib
    for seq in (["v1", "v3"], ["v3", "v1"], ["v1", "v2", "v1"], ["v2", "v3", "v4"]):
        w = vlib.workdir("c19-incr-" + "-".join(seq))
        src = os.path.join(w, "in")
        os.makedirs(src)
        cout, ccomp = os.path.join(w, "out"), os.path.join(w, "comp")
        for ver in seq:
            with open(os.path.join(src, buildlib.THEORY + ".eql"), "w") as f:
                f.write(buildlib.VERSIONS[ver])
            r1 = vlib.run([os.path.join(vlib.BIN, "eqlogc"), src, cout, "--build-type", "component", "--component-out-dir", ccomp,
                           "--rustc-path", os.path.join(vlib.VERIF, "tools", "fake_rustc.sh"), "--runtime-rlib-path", "/nonexistent.rlib"], timeout=900)
            if r1.returncode != 0:
                raise vlib.ToolError(f"incremental component build {seq} failed at {ver}: {r1.stderr[-800:]}")
        mout = os.path.join(w, "mout")
        r2 = vlib.run([os.path.join(vlib.BIN, "eqlogc"), src, mout], timeout=900)
        if r2.returncode != 0:
            raise vlib.ToolError(f"module build of {seq[-1]} failed: {r2.stderr[-800:]}")
        n = buildlib.THEORY
        cdir = os.path.join(ccomp, n + ".eql")
        srcs = {g: open(os.path.join(cdir, g)).read() for g in sorted(os.listdir(cdir)) if g.endswith(".rs")}
        records.append(program_record("incremental(" + "->".join(seq) + "):" + n, open(os.path.join(mout, n + ".eql.rs")).read(),
                                      open(os.path.join(cout, n + ".eql.rs")).read(), srcs))
    d = vlib.workdir("c19")
    link = os.path.join(d, "link.json")
    json.dump(records, open(link, "w"))
    r = vlib.tlc("Link", name="c19-tlc", workers=2, env={"LINK": link}, allow_violation=True)
    disagreements = 0
    if not r["ok"]:
        m = re.search(r"p = (\d+)", r["out"])
        if not m:
            raise vlib.ToolError("Link failed without a counterexample:\n" + r["out"][-2000:])
        rec = records[int(m.group(1)) - 1]
        disagreements = 1
        v.violation(f"{','.join(r['violated'])} fails for program {rec['program']}", {"program": rec["program"], "record": rec})
    # ---- behavioural part: the same histories against the module build and the component build
    beh = behavioural(v, tier)
    v.coverage = {
        "behavioural": beh,
        "programs": len(records), "disagreements_checked": disagreements + beh.get("differing_runs", 0),
        "samples": [{k: (val if k != "structs" else val[:1]) for k, val in records[0].items()}],
        "states": r["distinct"], "rule_modules": sum(len(x["ruletext"]) for x in records),
        "env_struct_declarations": sum(len(s["decls"]) for x in records for s in x["structs"]),
        "explanation": "structural validation of module-mode vs component-mode output for the corpus and the repository's "
                       "test theories (component sources obtained with a stand-in rustc); predicates of Link.tla evaluated by TLC per program; "
                       "behavioural: seeded random histories of every corpus theory executed by the driver built from the module-mode "
                       "text and by the one built with process_root() (real rustc, one library per rule); transcripts compared by DetTrace",
    }
    v.assumptions = ["tools/extract.py / checks/c19.py split the emitted text faithfully", "TLC"]
    return v.finish()
