"""C07 - close_until honours its contract and can be resumed.
Families: the direct close() of a fact set and, for every j, close_until stopping at the j-th
evaluation of its condition followed by close() (and by further assertions).  ApiTrace checks at
every observation point that the state is sound w.r.t. the reference chase, that `true` is returned
exactly at an evaluation that was true and `false` only in a closed state, and that every member's
final model is isomorphic to the direct one."""
import histories
import modelcheck

PROP = "C07"
SIZE = {"poset": 3, "semilattice": 2, "pend": 2, "diag": 2}


def make_plan(ths, tier, rnd):
    plan = modelcheck.Plan()
    thorough = tier == "thorough"
    fam = 0
    for theory, (sig, stages) in modelcheck.select(ths, PROP, tier):
        api = histories.api_of(sig, modelcheck.module_path(theory))
        n = SIZE.get(theory, 2)
        for _ in range(10 if thorough else 6):
            f1, f2, extra = histories.family_c07(sig, api, rnd, n, rnd.randint(1, 4), 4 if thorough else 3, stages=stages)
            for fam_members in [f1, f2] + extra:
                fam += 1
                for steps in fam_members:
                    plan.add(theory, steps, fam)
    return plan


def run(tier, replay):
    return modelcheck.run(PROP, tier, replay, make_plan, design=[("pend", {"maxels": 1, "maxid": 3, "maxasserts": 2, "thorough_only": {"maxels": 2, "maxid": 4, "maxasserts": 2}})],
                          explanation="families of one fact set: direct close vs close_until stopping at evaluation j (all j up "
                                      "to the bound) then resumed, with and without further assertions in between")
