"""C20 - model evaluation is deterministic.
The same histories are executed in fresh processes under perturbed conditions (address-space
randomisation on and off, heap shifted by a pre-allocation prologue, environment blocks of different
size, different stack size); the full transcripts (every returned id, every iterator's output in
order, every physical copy, before and after close) must be identical line by line (DetTrace, TLC).
Each transcript is additionally valid w.r.t. the API contract (the C01-C07 checks validate the same
kind of trace).  EqlogEval names the only sources of nondeterminism of the design (which root
survives a merge, the order in which pending definitions receive ids, iteration order); the
transcripts contain exactly these observables."""
import hashlib
import os
import random
import re
import shutil

import histories
import modelcheck
import theories
import vlib

PROP = "C20"


def run(tier, replay):
    v = vlib.Verdict(PROP, tier, "exploration")
    ths = theories.prepare()
    thorough = tier == "thorough"
    rnd = random.Random(vlib.seed())
    work = vlib.workdir("c20")
    rows = []
    hs = []
    for theory, (sig, stages) in sorted(ths.items()):
        api = histories.api_of(sig, modelcheck.module_path(theory))
        for _ in range(40 if thorough else 8):
            hs.append({"id": len(hs) + 1, "theory": theory, "fam": -1,
                       "steps": histories.random_history(sig, api, rnd, rnd.randint(5, 16), 3 if theory not in ("semilattice",) else 2)})
        # bulk histories on theories without `!`: dozens of elements and > 100 facts, so that single iterations
        # apply large batches of tuples and equalities (code paths gated by batch size) and merges have weight ties
        if not sig.models and not any(st["concl"]["kind"] == "def" for st in stages):
            for _ in range(3 if thorough else 1):
                hs.append({"id": len(hs) + 1, "theory": theory, "fam": -1,
                           "steps": histories.random_history(sig, api, rnd, rnd.randint(110, 160), 24, p_close=0.01, p_until=0.01,
                                                             allow_define=False, enum_prob=0.0)})
            # one long cycle per homogeneous binary relation: closes that merge dozens of equally heavy classes
            # in a single iteration (weight ties everywhere, large batches of queued equalities)
            for rel in api["insert"]:
                cols = sig.rels[rel]["cols"]
                if len(cols) == 2 and cols[0] == cols[1] and cols[0] in api["new"] and not sig.rels[rel]["func"]:
                    n = 40
                    steps = [{"op": "new", "ty": cols[0]} for _ in range(n)]
                    order = list(range(n))
                    rnd.shuffle(order)
                    steps += [histories.step_insert(rel, [i, (i + 1) % n]) for i in order]
                    steps.append({"op": "close"})
                    hs.append({"id": len(hs) + 1, "theory": theory, "fam": -1, "steps": steps})
    hpath = os.path.join(work, "histories.ndjson")
    vlib.write_ndjson(hpath, hs)
    variants = [("plain", [], {}), ("no-aslr", ["setarch", "-R"], {}), ("prealloc", [], {"MODEL_DRIVER_PREALLOC": "5000"}),
                ("bigenv", [], {"C20_PADDING": "x" * 60000}), ("stack", [], {"RUST_MIN_STACK": "33554432"}),
                ("prealloc2", ["setarch", "-R"], {"MODEL_DRIVER_PREALLOC": "177"})]
    if not thorough:
        variants = variants[:4]
    nlines = 0
    for label, prefix, env in variants:
        tpath = os.path.join(work, f"trace_{label}.ndjson")
        r = vlib.run(prefix + [os.path.join(vlib.BIN, "model-driver"), hpath, tpath], timeout=1800, env=env)
        if r.returncode != 0:
            raise vlib.ToolError(f"model-driver failed in variant {label}: {r.stderr[-800:]}")
        out = {}
        for i, line in enumerate(open(tpath)):
            line = re.sub(r'"ms":\d+,', "", line)
            out[f"line{i+1}"] = hashlib.sha1(line.encode()).hexdigest()[:16]
        nlines = len(out)
        rows.append({"group": "all-histories", "label": label, "out": out})
    trace = os.path.join(work, "trace.ndjson")
    vlib.write_ndjson(trace, rows)
    res = vlib.validate_trace("DetTrace", trace, name="c20-mon", cfg="DetTrace_C20")
    for viol in res["viol"]:
        v.violation(viol["what"], {"histories": hpath, "what": viol["what"]})
    v.coverage = {"evaluations": len(hs) * len(variants), "distinct_nontrivial": len({str(h["steps"]) for h in hs}),
                  "rule": "one evaluation = one history executed in one process variant; distinct = distinct histories (each has "
                          "assertions and at least one close); the compared transcript has %d lines per variant" % nlines,
                  "samples": [hs[0]], "variants": [x[0] for x in variants], "transcript_lines": nlines,
                  "explanation": "transcripts compared line by line by DetTrace (TLC)"}
    v.assumptions = ["process-level perturbations only (ASLR, heap layout, environment size, stack size)"]
    return v.finish()
