"""C11 - any input is answered by success or a well-formed diagnostic, never a crash.
Design: TLC checks Diag.tla (transcription of comment wiping, the line table and the excerpt
selection) over all texts of <=5 chars from {1-byte char, 2-byte char, LF, CRLF} and every error
position.  Binding: token-level and line-ending-level mutations of valid and invalid programs are
given to the real CLI; DiagTrace validates exit status, line number, excerpt and - where the
generator planted the defect - the reported line, and requires the answer to be independent of the
line-ending encoding."""
import os
import random
import re
import shutil
import subprocess
from concurrent.futures import ThreadPoolExecutor

import c16
import theories
import vlib

PROP = "C11"
TOKEN = re.compile(r"//[^\n]*|[A-Za-z][A-Za-z0-9'_]*|:=|->|=>|[(){};:,=!._@]|\S")


def split_lines(text):
    """like str::lines(): split at \\n / \\r\\n, no empty last line"""
    ls = text.split("\n")
    if ls and ls[-1] == "":
        ls.pop()
    return [l[:-1] if l.endswith("\r") else l for l in ls]


def encodings(lines):
    """the same lines under different line-ending encodings"""
    return [("lf", "\n".join(lines) + "\n"), ("crlf", "\r\n".join(lines) + "\r\n"),
            ("lf-noeol", "\n".join(lines)), ("mixed", "".join(l + ("\r\n" if i % 2 == 0 else "\n") for i, l in enumerate(lines)))]


def token_positions(lines):
    out = []
    for i, l in enumerate(lines):
        body = l.split("//")[0]
        for m in TOKEN.finditer(body):
            out.append((i, m.start(), m.end()))
    return out


def mutants(name, text, rnd, k):
    """returns list of (label, lines, expect_ok, expect_line)"""
    lines = split_lines(text)
    toks = token_positions(lines)
    out = [(f"{name}:orig", lines, 1, 0)]
    if not toks:
        return out
    # non-ASCII characters in comments do not change the program
    i = rnd.randrange(len(lines))
    out.append((f"{name}:nonascii-comment", lines[:i] + [lines[i] + " // café ☃ \U0001F600"] + lines[i + 1:], 1, 0))
    for _ in range(k):
        kind = rnd.choice(["trunc", "trunc", "plant-at", "plant-semi", "plant-banner", "dup", "del", "nonascii-ident", "nonascii-eof"])
        ti = rnd.randrange(len(toks))
        li, a, b = toks[ti]
        if kind == "trunc":
            # cut the file right after a token
            new = lines[:li] + [lines[li][:b]]
            out.append((f"{name}:trunc@{li+1}:{b}", new, -1, 0))
        elif kind == "plant-at":
            # an invalid token: the first error is at this position
            new = lines[:li] + [lines[li][:a] + "@ " + lines[li][a:]] + lines[li + 1:]
            out.append((f"{name}:at@{li+1}:{a}", new, 0, li + 1))
        elif kind == "plant-banner":
            # the same planted token below a comment banner of multi-byte characters (byte offsets and
            # character offsets of everything after the banner differ by dozens of positions)
            banner = "// " + "\u2500" * rnd.randint(8, 40) + " caf\u00e9 \u2603"
            at = rnd.randint(0, li)
            new = lines[:at] + [banner] + lines[at:li] + [lines[li][:a] + "@ " + lines[li][a:]] + lines[li + 1:]
            out.append((f"{name}:banner@{li+2}:{a}", new, 0, li + 2))
        elif kind == "plant-semi":
            new = lines[:li] + [lines[li][:a] + "é " + lines[li][a:]] + lines[li + 1:]
            out.append((f"{name}:nonascii@{li+1}:{a}", new, 0, li + 1))
        elif kind == "dup":
            new = lines[:li] + [lines[li][:b] + " " + lines[li][a:b] + lines[li][b:]] + lines[li + 1:]
            out.append((f"{name}:dup@{li+1}:{a}", new, -1, 0))
        elif kind == "del":
            new = lines[:li] + [lines[li][:a] + lines[li][b:]] + lines[li + 1:]
            out.append((f"{name}:del@{li+1}:{a}", new, -1, 0))
        elif kind == "nonascii-ident":
            new = lines[:li] + [lines[li][:b] + "ä" + lines[li][b:]] + lines[li + 1:]
            out.append((f"{name}:uml@{li+1}:{b}", new, -1, 0))
        else:
            out.append((f"{name}:nonascii-eof", lines + ["☃"], 0, len(lines) + 1))
    return out


def token_soup(rnd, n):
    alphabet = ["type", "pred", "func", "rule", "enum", "if", "then", "branch", "along", "match", "A", "x", "f", "(", ")", "{", "}",
                ";", ",", ":", "=", "!", "->", "=>", ":=", "_", ".", "@", "//c", "é"]
    lines = []
    cur = []
    for _ in range(n):
        t = rnd.choice(alphabet)
        cur.append(t)
        if t == "//c" or rnd.random() < 0.3:
            lines.append(" ".join(cur))
            cur = []
    if cur:
        lines.append(" ".join(cur))
    return lines


def run_cli(item):
    i, group, enc, text, lines, expect_ok, expect_line, work = item
    d = os.path.join(work, f"r{i % 64}_{i}")
    os.makedirs(os.path.join(d, "in"), exist_ok=True)
    with open(os.path.join(d, "in", "t.eql"), "w", newline="") as f:
        f.write(text)
    timeout = False
    try:
        r = subprocess.run([os.path.join(vlib.BIN, "eqlogc"), os.path.join(d, "in"), os.path.join(d, "out")],
                           capture_output=True, text=True, timeout=60)
        rc, err = r.returncode, r.stderr
    except subprocess.TimeoutExpired:
        rc, err, timeout = -1, "", True
    shutil.rmtree(d, ignore_errors=True)
    errl = err.split("\n")
    msg = errl[0] if errl else ""
    m = [re.search(r"--> .*:(\d+)$", x) for x in errl]
    m = [x for x in m if x]
    line = int(m[0].group(1)) if m else 0
    excerpt = []
    for x in errl:
        mm = re.match(r"^\s*(\d+) \| (.*)$", x)
        if mm:
            excerpt.append({"n": int(mm.group(1)), "text": mm.group(2)})
        else:
            mm = re.match(r"^\s*(\d+) \| ?$", x)
            if mm:
                excerpt.append({"n": int(mm.group(1)), "text": ""})
    return {"ev": "diag", "id": i, "group": group, "enc": enc, "nlines": len(lines), "lines": lines,
            "expect_ok": expect_ok, "expect_line": expect_line, "rc": rc, "timeout": timeout, "msg": msg[:200],
            "line": line, "excerpt": excerpt}


def run(tier, replay):
    v = vlib.Verdict(PROP, tier, "exploration")
    vlib.cargo_build(["eqlogc"])
    thorough = tier == "thorough"
    rnd = random.Random(vlib.seed())
    design = vlib.tlc("Diag", "Diag_TRUE_TRUE", name="c11-design", workers=8)
    work = vlib.workdir("c11")
    cases = []  # (label, lines, expect_ok, expect_line)
    if replay is not None:
        rp = replay["replay"]
        cases = [(rp["label"], rp["lines"], rp.get("expect_ok", -1), rp.get("expect_line", 0))]
    else:
        sources = {}
        for f in sorted(os.listdir(theories.THEORIES)):
            if f.endswith(".eql"):
                sources["corpus/" + f] = (open(os.path.join(theories.THEORIES, f)).read(), True)
        rd = c16.repo_theories_dir()
        for f in sorted(os.listdir(rd)):
            sources["repo/" + f] = (open(os.path.join(rd, f)).read(), True)
        ed = "/repo/eqlog-test-compile/error-test-source"
        if os.path.isdir(ed):
            for f in sorted(os.listdir(ed)):
                tf = os.path.join(ed, f, "theory.eql")
                if os.path.exists(tf):
                    sources["errors/" + f] = (open(tf).read(), False)
        for name, (text, valid) in sources.items():
            ms = mutants(name, text, rnd, 25 if thorough else 4)
            if not valid:
                ms = [(lab, ls, (-1 if ok == 1 else ok), el if ok != 0 else 0) for lab, ls, ok, el in ms]
                ms = [(lab, ls, ok if ok != 0 else -1, 0) for lab, ls, ok, el in ms]
            cases += ms
        for j in range(400 if thorough else 60):
            cases.append((f"soup{j}", token_soup(rnd, rnd.randint(1, 12)), -1, 0))
        cases += [("pinned:eof", ["type"], -1, 0), ("pinned:eof2", ["type A;", "pred p(A"], -1, 0),
                  ("pinned:crlf", ["type A;", "pred p(A);", "rule r {", "    if p(x);", "    then q(x);", "}"], 0, 5),
                  ("pinned:empty", [], 1, 0), ("pinned:blank", ["", "", ""], 1, 0)]
    # an empty last line cannot be encoded without a final terminator: normalise the line sequences
    def strip_tail(ls):
        ls = list(ls)
        while ls and ls[-1] == "":
            ls.pop()
        return ls
    cases = [(lab, strip_tail(ls) if lab not in ("pinned:blank",) else ls, eo, el) for lab, ls, eo, el in cases]
    items = []
    for g, (label, lines, eo, el) in enumerate(cases):
        for enc, text in encodings(lines):
            if enc == "mixed" and not thorough and g % 3:
                continue
            if enc == "lf-noeol" and lines and lines[-1] == "":
                continue
            items.append((len(items) + 1, g, enc, text, split_lines(text), eo, el, work))
    with ThreadPoolExecutor(16) as ex:
        events = list(ex.map(run_cli, items))
    trace = os.path.join(work, "trace.ndjson")
    vlib.write_ndjson(trace, events)
    res = vlib.validate_trace("DiagTrace", trace, name="c11-mon")
    seen = set()
    for viol in res["viol"]:
        it = items[viol["id"] - 1]
        if it[1] in seen:
            continue
        seen.add(it[1])
        label, lines, eo, el = cases[it[1]]
        v.violation(f"{label} ({it[2]}): {viol['what']}", {"label": label, "lines": lines, "expect_ok": eo, "expect_line": el})
    distinct = len({(tuple(c[1])) for c in cases if c[1]})
    v.coverage = {"evaluations": len(items), "distinct_nontrivial": distinct,
                  "rule": "one evaluation = one CLI run on one encoding (LF, CRLF, no final newline, mixed) of one input; inputs: the corpus, "
                          "the repository's test theories and its 45 erroneous sources, each with seeded token-level mutants (truncation after "
                          "a token, planted invalid / non-ASCII token with known line, duplicated / deleted token, non-ASCII in comments and at "
                          "EOF) and random token sequences; distinct = distinct non-empty line sequences",
                  "samples": [{"label": cases[len(cases) // 2][0], "lines": cases[len(cases) // 2][1][:6]}],
                  "monitor_stats": res["stats"], "design_states": design["distinct"],
                  "explanation": "Diag.tla (repaired design) checked for all texts of <=5 chars; CLI outcomes validated by DiagTrace (TLC)"}
    v.assumptions = ["stderr of the CLI is parsed by line patterns (`--> path:N`, `N | text`)"]
    return v.finish()
