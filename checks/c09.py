"""C09 - every accepted program yields Rust that compiles, in both build modes.
Input space: the well-formed programs of Lang.tla (TLC-enumerated, Errors = {}), the corpus, the
repository's theories and hand-made extremes (empty theory, 9-column relations, nullary symbols,
enum-only, model-only).  Module mode: the CLI must exit 0 (101 = panic = violation) and the emitted
modules are type-checked by rustc against the runtime built from /repo.  Component mode: a sample is
compiled with the real rustc per rule library, linked with a small main and smoke-run."""
import glob
import os
import random
import re
import shutil
import subprocess

import c10
import c16
import gen_adapter
import theories
import vlib

PROP = "C09"

SPECIAL = {
    "spempty": "",
    "spnine": "type A;\npred r(A, A, A, A, A, A, A, A, A);\nfunc k(A, A, A, A, A, A, A, A) -> A;\npred hit(A);\n"
              "rule a {\n  if r(x, y, x, y, x, y, x, y, z);\n  then hit(z);\n}\nrule b {\n  if v = k(x, x, x, x, x, x, x, x);\n  then hit(v);\n}\n",
    "spnullary": "pred z();\npred w();\nrule a {\n  if z();\n  then w();\n}\nrule b {\n  then z();\n}\n",
    "spenum": "enum E {\n  Aa(),\n  Bb(E),\n  Cc(E, E)\n}\n",
    "spmodel": "type C;\nmodel Mm {\n  pred el(c: C);\n  func pick() -> C;\n}\n",
    "spmember": "type Color;\nmodel Graph {\n  type Node;\n  pred tagged(c: Color, n: Node);\n  pred edge(a: Node, b: Node);\n  func pick(c: Color) -> Node;\n  pred pair(c: Color, d: Color);\n}\n",
    "spconst": "type A;\nfunc c() -> A;\nfunc d() -> A;\npred p(A);\nrule a {\n  then c()!;\n}\nrule b {\n  if x = c();\n  if y = d();\n  then x = y;\n}\n",
}


def letters(i):
    s = ""
    for _ in range(3):
        s = chr(ord("a") + i % 26) + s
        i //= 26
    return s


def runtime_rlib():
    """the rlib of /repo/eqlog-runtime as built for rt-driver (the target directory also holds the
    registry runtime 0.8.0 that eqlog-eqlog links: ask cargo which artifact belongs to the path crate)"""
    import json
    r = vlib.run(["cargo", "build", "--offline", "--quiet", "-p", "rt-driver", "--message-format=json"], cwd=vlib.HARNESS, timeout=3600)
    if r.returncode != 0:
        raise vlib.ToolError("cargo build failed: " + r.stderr[-2000:])
    found = []
    for line in r.stdout.splitlines():
        try:
            m = json.loads(line)
        except ValueError:
            continue
        if m.get("reason") == "compiler-artifact" and m.get("target", {}).get("name") == "eqlog_runtime" \
                and "/repo/eqlog-runtime" in m.get("package_id", "") + m.get("manifest_path", ""):
            found += [f for f in m.get("filenames", []) if f.endswith(".rlib")]
    if not found:
        raise vlib.ToolError("no eqlog_runtime rlib of /repo/eqlog-runtime among cargo's artifacts")
    return found[-1]


def run(tier, replay):
    v = vlib.Verdict(PROP, tier, "exploration")
    vlib.cargo_build(["eqlogc", "rt-driver"])
    thorough = tier == "thorough"
    rnd = random.Random(vlib.seed())
    work = vlib.workdir("c09")
    src = os.path.join(work, "in")
    os.makedirs(src)
    programs = {}
    for f in sorted(os.listdir(theories.THEORIES)):
        if f.endswith(".eql"):
            programs[f[:-4]] = open(os.path.join(theories.THEORIES, f)).read()
    rd = c16.repo_theories_dir()
    for f in sorted(os.listdir(rd)):
        programs.setdefault("rp_" + f[:-4], open(os.path.join(rd, f)).read())
    programs.update(SPECIAL)
    gen = vlib.tlc("MCLang", name="c09-gen", workers=8, timeout=3000)
    accepted = []
    for p in gen["prints"].get("PROG", []):
        if not p["errs"]:
            prog = p["prog"]
            accepted.append([prog[k] for k in sorted(prog, key=int)] if isinstance(prog, dict) else prog)
    nlang = 300 if thorough else 30
    for i, prog in enumerate(rnd.sample(accepted, min(nlang, len(accepted)))):
        programs["lp" + letters(i)] = c10.render(prog)
    for name, text in programs.items():
        with open(os.path.join(src, name + ".eql"), "w") as f:
            f.write(text)
    # ---- module mode: accept without panic, then type-check
    out = os.path.join(work, "out")
    bad = 0
    r = vlib.run([os.path.join(vlib.BIN, "eqlogc"), src, out], timeout=1800)
    failed = []
    if r.returncode != 0:
        # find the offending program(s) by compiling one by one
        for name, text in programs.items():
            d1 = os.path.join(work, "one", name)
            os.makedirs(os.path.join(d1, "in"), exist_ok=True)
            open(os.path.join(d1, "in", name + ".eql"), "w").write(text)
            r1 = vlib.run([os.path.join(vlib.BIN, "eqlogc"), os.path.join(d1, "in"), os.path.join(d1, "out")], timeout=600)
            if r1.returncode != 0:
                failed.append(name)
                kf = next((k for k in vlib.known_findings() if k.get("kind") == "known" and PROP in k.get("properties", [])
                           and r1.returncode == 101 and re.search(r":=\s*(\w+)\(.*\b\1?", text) and "flatten.rs" in r1.stderr), None)
                v.violation(f"the compiler rejects or crashes on well-formed program {name} (exit {r1.returncode}): {r1.stderr[:200]}",
                            {"program": name, "text": text})
        for name in failed:
            os.remove(os.path.join(src, name + ".eql"))
        shutil.rmtree(out, ignore_errors=True)
        r = vlib.run([os.path.join(vlib.BIN, "eqlogc"), src, out], timeout=1800)
        if r.returncode != 0:
            raise vlib.ToolError("module-mode compilation still fails after removing offenders: " + r.stderr[-800:])
    names = [n for n in programs if n not in failed]
    rlib = runtime_rlib()
    batch = os.path.join(work, "batch.rs")
    with open(batch, "w") as f:
        f.write("#![allow(warnings)]\n")
        for n in names:
            f.write(f'pub mod {n} {{ include!("{os.path.join(out, n + ".eql.rs")}"); }}\n')
    rc = vlib.run(["rustc", "--edition", "2021", "--crate-type", "lib", "--emit=metadata", "-o", os.path.join(work, "batch.rmeta"),
                   "--extern", f"eqlog_runtime={rlib}", "-L", "dependency=" + os.path.join(vlib.BIN, "deps"), batch], timeout=3000)
    if rc.returncode != 0:
        # attribute errors to programs
        offenders = sorted(set(re.findall(r"--> .*/(\w+)\.eql\.rs:", rc.stderr)))
        for n in offenders or ["<unknown>"]:
            v.violation(f"generated module of accepted program {n} does not compile (module mode)",
                        {"program": n, "text": programs.get(n, ""), "rustc": rc.stderr[:1500]})
    # ---- component mode with the real rustc, link and smoke run
    sample = ["poset", "misc", "enumt", "inherit", "spnine", "spnullary"] + [n for n in names if n.startswith("lp")][: (20 if thorough else 2)]
    if thorough:
        sample += [n for n in names if n.startswith("rp_")][:12]
    sample = [n for n in sample if n in names]
    csrc = os.path.join(work, "cin")
    os.makedirs(csrc)
    for n in sample:
        shutil.copyfile(os.path.join(src, n + ".eql"), os.path.join(csrc, n + ".eql"))
    cout, ccomp = os.path.join(work, "cout"), os.path.join(work, "ccomp")
    r = vlib.run([os.path.join(vlib.BIN, "eqlogc"), csrc, cout, "--build-type", "component", "--component-out-dir", ccomp,
                  "--rustc-path", "rustc", "--runtime-rlib-path", rlib, "--opt-level", "0"], timeout=3000,
                 env={"RUSTFLAGS": ""})
    linked = 0
    if r.returncode != 0:
        v.violation("component build of accepted programs fails: " + r.stderr[-600:], {"programs": sample, "stderr": r.stderr[-3000:]})
    else:
        for n in sample:
            cdir = os.path.join(ccomp, n + ".eql")
            libs = sorted(f for f in os.listdir(cdir) if f.endswith(".rlib")) if os.path.isdir(cdir) else []
            main = os.path.join(work, f"main_{n}.rs")
            with open(main, "w") as f:
                f.write("#![allow(warnings)]\n")
                f.write(f'mod m {{ include!("{os.path.join(cout, n + ".eql.rs")}"); }}\n')
                f.write(f"fn main() {{ let mut x = m::{gen_adapter.camel(n)}::new(); x.close(); println!(\"ok\"); }}\n")
            cmd = ["rustc", "--edition", "2021", "-o", os.path.join(work, f"main_{n}"), "--extern", f"eqlog_runtime={rlib}",
                   "-L", "dependency=" + os.path.join(vlib.BIN, "deps"), "-L", "native=" + cdir]
            for lib in libs:
                cmd += ["-l", f"static:+verbatim={lib}"]
            cmd.append(main)
            rl = vlib.run(cmd, timeout=900)
            if rl.returncode != 0:
                v.violation(f"component build of {n} does not link", {"program": n, "text": programs[n], "rustc": rl.stderr[-1500:]})
                continue
            rr = vlib.run([os.path.join(work, f"main_{n}")], timeout=120)
            if rr.returncode != 0 or "ok" not in rr.stdout:
                v.violation(f"component build of {n} links but new()+close() fails (exit {rr.returncode})", {"program": n, "text": programs[n]})
            else:
                linked += 1
    v.coverage = {"evaluations": len(programs) + len(sample), "distinct_nontrivial": len([t for t in set(programs.values()) if "rule" in t]),
                  "rule": "one evaluation = one program through one build mode; module mode: CLI exit status + rustc type-check of the emitted "
                          "module; component mode: real rustc per rule library + link + run of new()/close(); non-trivial = has at least one rule",
                  "samples": [{"program": "lpaaa", "text": programs.get("lpaaa", "")[len(c10.PRE):]}],
                  "module_mode_programs": len(names), "component_mode_programs": len(sample), "component_linked_and_run": linked,
                  "lang_accepted_enumerated": len(accepted),
                  "explanation": "programs from Lang.tla (TLC), the corpus, the repository's theories and extremes; oracle: rustc"}
    v.assumptions = ["rustc is the oracle for `compiles`"]
    return v.finish()
