"""C04 - closed models are canonical and every query path gives the same answer.
Decided by ApiTrace!CanonBad at every condition evaluation and every return of close/close_until:
iterators yield roots only and no duplicates, iter_<type> = one representative per class, point
queries = iterators (over *all* ids, i.e. invariant under equal arguments), every physical index
copy (column orders, new/old, diagonal, own/all, per-element row lists) describes the same set."""
import histories
import modelcheck

PROP = "C04"
SIZE = {"poset": 3, "semilattice": 2, "pend": 2, "diag": 3}


def make_plan(ths, tier, rnd):
    plan = modelcheck.Plan()
    thorough = tier == "thorough"
    for theory, (sig, stages) in modelcheck.select(ths, PROP, tier):
        api = histories.api_of(sig, modelcheck.module_path(theory))
        n = SIZE.get(theory, 2)
        for _ in range(80 if thorough else 40):
            plan.add(theory, histories.random_history(sig, api, rnd, (8 if theory == 'joins' else 0) + rnd.randint(4, 14), n, p_close=0.15, p_until=0.1))
    return plan


def run(tier, replay):
    return modelcheck.run(PROP, tier, replay, make_plan,
                          explanation="seeded random histories with many equate_/close interleavings; every obs/close_ret "
                                      "event is checked for canonicity, query agreement and agreement of all physical copies")
